"""Engine for specs/Adapters.tla (C17)."""

from __future__ import annotations

import itertools
import math
from concurrent.futures import ThreadPoolExecutor
from fractions import Fraction

import numpy as np

from mbv import tlc
from mbv.tlc import MachineryError

CFG = """SPECIFICATION Spec
CONSTANTS
  Mode = "{mode}"
  Points <- PointsDef
  MaxLen = {maxlen}
  NChain = {nchain}
  Stats <- StatsDef
  MaxProbes = {maxprobes}
INVARIANT OnlineEqualsBatch
INVARIANT VarianceNonNegative
INVARIANT SearchCrosses
INVARIANT SearchBounded
INVARIANT PrintLeaf
CHECK_DEADLOCK FALSE
"""
POINTS = [(0, 0), (1, 0), (0, 2), (3, 1)]
STATS = [(0, 1), (1, 4), (1, 2), (3, 4), (1, 1)]


def configs(tier):
    q = tier == "quick"
    return [
        dict(mode="moments", maxlen=3 if q else 4, nchain=3, maxprobes=1),
        dict(mode="moments", maxlen=4 if q else 5, nchain=2, maxprobes=1),
        dict(mode="dual", maxlen=4 if q else 5, nchain=1, maxprobes=1),
        dict(mode="dual", maxlen=3 if q else 4, nchain=2, maxprobes=1),
        dict(mode="search", maxlen=1, nchain=1, maxprobes=5 if q else 7),
    ]


def run_one(idx, c, name):
    d = tlc.fresh_dir(f"{name}_{idx}")
    tlc.stage_specs(d, ["Adapters.tla"])
    src = (d / "Adapters.tla").read_text().replace(
        "=============================================================================",
        "PointsDef == {" + ", ".join(f"<<{a}, {b}>>" for a, b in POINTS) + "}\n"
        "StatsDef == {" + ", ".join(f"<<{a}, {b}>>" for a, b in STATS) + "}\n"
        "=============================================================================")
    (d / "Adapters.tla").write_text(src)
    return tlc.run_tlc(d, "Adapters", CFG.format(**c), workers=2, timeout=1200, cpus=2, heap="3g")


def run_spec(tier, name):
    cfgs = configs(tier)
    with ThreadPoolExecutor(max_workers=len(cfgs)) as ex:
        results = list(ex.map(lambda a: run_one(a[0], a[1], name), enumerate(cfgs)))
    leaves, gen, dist = [], 0, 0
    for c, res in zip(cfgs, results):
        if not res.ok:
            raise MachineryError(f"Adapters.tla violates its own invariant {res.violated} ({c}):\n{res.stdout[-2000:]}")
        gen += res.generated
        dist += res.distinct
        for r in res.printed:
            if isinstance(r, dict) and "mode" in r:
                r["cfg"] = c
                leaves.append(r)
    return leaves, {"generated": gen, "distinct": dist}, cfgs


def fr(x):
    return Fraction(x[0], x[1])


# ---- moments ----------------------------------------------------------------------------
class _Trans:
    pass


class _RecRng:
    """rng whose normal draws are recorded (momentum refresh check)."""

    def __init__(self, seed):
        self.g, self.draws = np.random.default_rng(seed), []

    def standard_normal(self, *a, **k):
        z = self.g.standard_normal(*a, **k)
        self.draws.append(np.array(z))
        return z

    normal = standard_normal


def check_moments(leaf, offsets):
    import mici
    from mici.errors import AdaptationError
    from mici.states import ChainState

    viol, drift, runs = [], [], 0
    hist = leaf["hist"]
    nchain = leaf["cfg"]["nchain"]
    n = leaf["n"]
    m2 = [fr(x) for x in leaf["m2"]]
    n0, scale_reg = 5, 1e-3
    for cls_name in ("var", "cov"):
        for off, sc in offsets:
            for order in (list(range(nchain)), list(reversed(range(nchain)))):
                runs += 1
                adapter = (mici.adapters.OnlineVarianceMetricAdapter() if cls_name == "var"
                           else mici.adapters.OnlineCovarianceMetricAdapter())
                system = mici.systems.EuclideanMetricSystem(lambda q: 0.5 * q @ q, grad_neg_log_dens=lambda q: q)
                trans = _Trans()
                trans.system = system
                states = [ChainState(pos=np.array([off, off], dtype=float), mom=np.zeros(2), dir=1) for _ in range(nchain)]
                # momenta were drawn under the old metric before adaptation (as in a sampler)
                for c in range(nchain):
                    states[c].mom = system.sample_momentum(states[c], np.random.default_rng(c))
                ads = [adapter.initialize(states[c], trans) for c in range(nchain)]
                for (c, x, y) in hist:
                    states[c - 1].pos = np.array([off + sc * x, off + sc * y], dtype=float)
                    adapter.update(ads[c - 1], states[c - 1], {}, trans)
                rngs = [_RecRng(50 + c) for c in range(nchain)]
                desc = f"Online{'Variance' if cls_name == 'var' else 'Covariance'}MetricAdapter, history {hist} (chain, x, y), offset {off:g}, scale {sc:g}, chain order {order}"
                rp = {"engine": "adapters-moments", "hist": hist, "nchain": nchain, "cls": cls_name, "offset": off, "scale": sc, "order": order}
                try:
                    adapter.finalize([ads[c] for c in order], [states[c] for c in order], trans, [rngs[c] for c in order])
                except AdaptationError:
                    if n >= 2:
                        viol.append((f"C17:{cls_name}:spurious-adaptation-error", f"{desc}: AdaptationError although {n} positions were seen", rp))
                    continue
                except Exception as e:  # noqa: BLE001
                    viol.append((f"C17:{cls_name}:exception:{type(e).__name__}", f"{desc}: finalize raised {type(e).__name__}: {e}", rp))
                    continue
                if n < 2:
                    viol.append((f"C17:{cls_name}:no-error-with-fewer-than-two-samples", f"{desc}: finalize succeeded with {n} position(s)", rp))
                    continue
                # spec value: regularised pooled sample covariance
                cov = np.array([[float(m2[0]), float(m2[1])], [float(m2[1]), float(m2[2])]]) * sc * sc / (n - 1)
                w = n / (n0 + n)
                if cls_name == "var":
                    want = np.diag(np.diag(cov) * w + scale_reg * n0 / (n0 + n))
                else:
                    want = cov * w + np.eye(2) * scale_reg * n0 / (n0 + n)
                got = np.linalg.inv(system.metric.array)
                tol = 1e-9 if off <= 1e3 else (1e-7 if off <= 1e6 else 2e-4)
                if not np.allclose(got, want, rtol=tol, atol=tol * float(np.max(np.abs(want)))):
                    viol.append((f"C17:{cls_name}:estimate:{'large-offset' if off > 1e3 else 'plain'}",
                                 f"{desc}: metric^-1 = {got.tolist()} but the regularised pooled sample "
                                 f"{'variance' if cls_name == 'var' else 'covariance'} of all positions is {want.tolist()}", rp))
                    continue
                # momenta refreshed under the new metric
                for c in order:
                    if not rngs[c].draws:
                        viol.append((f"C17:{cls_name}:momentum-not-refreshed", f"{desc}: chain {c + 1} momentum not redrawn after the metric change", rp))
                        break
                    z = rngs[c].draws[-1]
                    if not np.allclose(states[c].mom, system.metric.sqrt @ z, rtol=1e-10, atol=1e-12):
                        viol.append((f"C17:{cls_name}:momentum-not-under-new-metric", f"{desc}: chain {c + 1} momentum is not sqrt(new metric) @ z", rp))
                        break
    return viol, drift, runs


# ---- dual averaging ---------------------------------------------------------------------
class _Integ:
    step_size = None


def lf_eval(lf, mu):
    basis = [1.0, mu, math.sqrt(2), math.sqrt(3), math.sqrt(5)]
    return math.fsum(float(fr(c)) * b for c, b in zip(lf, basis))


def check_dual(leaf):
    import mici

    viol, runs = [], 0
    hist, nchain = leaf["hist"], leaf["cfg"]["nchain"]
    # the recursion is covariant under a shift of the regularisation target (all iterates move with it), so the short
    # histories of the specification also decide very small / very large step sizes (a target of +-30: steps ~1e+-13)
    for mu in (math.log(0.7), 0.3, 0.0, 30.0, -30.0):
        for red_name, red in (("arithmetic", mici.adapters.arithmetic_mean_log_step_size_reducer),
                              ("geometric", mici.adapters.geometric_mean_log_step_size_reducer),
                              ("min", mici.adapters.min_log_step_size_reducer)):
            runs += 1
            adapter = mici.adapters.DualAveragingStepSizeAdapter(iter_decay_coeff=1.0, log_step_size_reg_target=mu,
                                                                 log_step_size_reducer=red)
            trans = _Trans()
            trans.integrator = _Integ()
            ads = [{"iter": 0, "smoothed_log_step_size": 0.0, "adapt_stat_error": 0.0, "log_step_size_reg_target": mu}
                   for _ in range(nchain)]
            rp = {"engine": "adapters-dual", "hist": hist, "nchain": nchain, "mu": mu, "reducer": red_name}
            desc = f"DualAveragingStepSizeAdapter(kappa=1, mu={mu:.4f}, {red_name}), acceptance history {hist}"
            ok = True
            for (c, a, b) in hist:
                adapter.update(ads[c - 1], None, {"accept_stat": a / b}, trans)
                if not (trans.integrator.step_size > 0 and math.isfinite(trans.integrator.step_size)):
                    viol.append(("C17:dual:step-size-not-positive-finite", f"{desc}: step size {trans.integrator.step_size}", rp))
                    ok = False
                    break
            if not ok:
                continue
            for c in range(nchain):
                d = leaf["dual"][c]
                if d["iter"] != ads[c]["iter"]:
                    viol.append(("C17:dual:iteration-count", f"{desc}: chain {c + 1} iter {ads[c]['iter']} vs {d['iter']}", rp))
                    ok = False
                    break
                if d["iter"] > 0 and not math.isclose(ads[c]["smoothed_log_step_size"], lf_eval(d["smoothed"], mu), rel_tol=1e-10, abs_tol=1e-12):
                    viol.append(("C17:dual:smoothed-iterate",
                                 f"{desc}: chain {c + 1} smoothed log step size {ads[c]['smoothed_log_step_size']} but the "
                                 f"documented recursion gives {lf_eval(d['smoothed'], mu)}", rp))
                    ok = False
                    break
            if not ok:
                continue
            last_c = hist[-1][0]
            want_last = math.exp(lf_eval(leaf["dual"][last_c - 1]["logstep"], mu))
            if not math.isclose(trans.integrator.step_size, want_last, rel_tol=1e-10):
                viol.append(("C17:dual:step-size-after-update", f"{desc}: step size {trans.integrator.step_size} after the last update, recursion gives {want_last}", rp))
                continue
            # finalize: reducer of the SMOOTHED iterates
            sm = [lf_eval(leaf["dual"][c]["smoothed"], mu) if leaf["dual"][c]["iter"] > 0 else 0.0 for c in range(nchain)]
            want = {"arithmetic": sum(math.exp(x) for x in sm) / nchain, "geometric": math.exp(sum(sm) / nchain),
                    "min": math.exp(min(sm))}[red_name]
            adapter.finalize(ads if nchain > 1 else ads[0], None, trans, None)
            if not math.isclose(trans.integrator.step_size, want, rel_tol=1e-10):
                viol.append((f"C17:dual:finalize:{red_name}", f"{desc}: finalised step size {trans.integrator.step_size}, "
                             f"the {red_name} reducer of the smoothed iterates is {want}", rp))
    return viol, runs


# ---- initial step-size search -------------------------------------------------------------
def check_search(leaf):
    import mici
    from mici.errors import AdaptationError, ConvergenceError
    from mici.states import ChainState

    hist, pr = leaf["hist"], leaf["search"]
    calls = {"h": 0, "step": 0}

    class Sys:
        def h(self, state):
            calls["h"] += 1
            if calls["h"] == 1:
                return 0.0
            tok = hist[calls["step"] - 1]
            return {"le": 0.1, "gt": 5.0, "nan": float("nan")}[tok]

    class Integ:
        step_size = None

        def step(self, state):
            k = calls["step"]
            calls["step"] += 1
            if k >= len(hist):
                raise RuntimeError("script exhausted")
            self.sizes.append(self.step_size)
            if hist[k] == "err":
                raise ConvergenceError("scripted")
            return state

    integ = Integ()
    integ.sizes = []
    adapter = mici.adapters.DualAveragingStepSizeAdapter(max_init_step_size_iters=leaf["cfg"]["maxprobes"])
    state = ChainState(pos=np.zeros(2), mom=np.zeros(2), dir=1)
    rp = {"engine": "adapters-search", "hist": hist, "maxprobes": leaf["cfg"]["maxprobes"]}
    desc = f"initial step-size search, probe classes {hist}"
    viol = []
    try:
        got = adapter._find_and_set_init_step_size(state, Sys(), integ)
        out = "return"
    except AdaptationError:
        got, out = None, "AdaptationError"
    except RuntimeError:
        got, out = None, "script-exhausted"
    except Exception as e:  # noqa: BLE001
        got, out = None, f"{type(e).__name__}"
    if out == "return":
        # property: the returned step size is one whose probe lies on the other side of log 2
        k = calls["step"] - 1
        last = hist[k]
        first_side_big = None
        big = None
        for j, tok in enumerate(hist[: k + 1]):
            if tok == "err":
                big = True
            elif j == 0 or tok == "nan":
                big = tok != "le"
        if not ((big and last == "le") or (not big and last == "gt")):
            viol.append(("C17:search:does-not-cross", f"{desc}: returned {got} although the last probe ({last}) is on the same side of log 2 as the search direction", rp))
        if got != integ.sizes[-1]:
            viol.append(("C17:search:returned-size-not-probed", f"{desc}: returned {got} but the last probed step size was {integ.sizes[-1]}", rp))
    drift = []
    if out != pr["out"] or (out == "return" and not math.isclose(got, 2.0 ** pr["exp"])) or calls["step"] != len(hist):
        if out == "return" and pr["out"] == "return" and not math.isclose(got, 2.0 ** pr["exp"]):
            viol.append(("C17:search:wrong-step-size", f"{desc}: returned {got}, the documented doubling/halving search gives {2.0 ** pr['exp']}", rp))
        elif {out, pr["out"]} == {"return", "AdaptationError"}:
            viol.append(("C17:search:outcome", f"{desc}: implementation {out}, specification {pr['out']}", rp))
        else:
            drift.append(f"{desc}: implementation {out} {got} after {calls['step']} probes, spec {pr['out']} 2^{pr['exp']}")
    return viol, drift, 1


def check_initialize_sequence(search_leaves):
    """One adapter object initialised for several chains / stages in a row: every adapter state
    gets the regularisation target log(10 * its own initial step size) (documented default)."""
    import mici
    from mici.errors import ConvergenceError
    from mici.states import ChainState

    rets = [l for l in search_leaves if l["search"]["out"] == "return"]
    viol, runs = [], 0
    # pairs with different returned step sizes, each order
    pairs = []
    for a in rets:
        for b in rets:
            if a["search"]["exp"] != b["search"]["exp"]:
                pairs.append((a, b))
    step = max(1, len(pairs) // 40)
    # the documented default (None) and explicit targets, among them 0.0 (= regularise towards step size 1)
    targets = [None, 0.0, -1.5, 0.5]
    for pi, (a, b) in enumerate(pairs[::step]):
        target = targets[pi % len(targets)] if pi >= 4 else targets[pi]
        adapter = mici.adapters.DualAveragingStepSizeAdapter(max_init_step_size_iters=a["cfg"]["maxprobes"],
                                                             log_step_size_reg_target=target)
        runs += 1
        for which, leaf in (("first", a), ("second", b)):
            hist = leaf["hist"]
            calls = {"h": 0, "step": 0}

            class Sys:
                def h(self, state, hist=hist, calls=calls):
                    calls["h"] += 1
                    if calls["h"] == 1:
                        return 0.0
                    return {"le": 0.1, "gt": 5.0, "nan": float("nan")}[hist[calls["step"] - 1]]

            class Integ:
                step_size = None

                def step(self, state, hist=hist, calls=calls):
                    k = calls["step"]
                    calls["step"] += 1
                    if hist[k] == "err":
                        raise ConvergenceError("scripted")
                    return state

            trans = _Trans()
            trans.system, trans.integrator = Sys(), Integ()
            st = adapter.initialize(ChainState(pos=np.zeros(2), mom=np.zeros(2), dir=1), trans)
            want = math.log(10 * 2.0 ** leaf["search"]["exp"]) if target is None else target
            if not math.isclose(st["log_step_size_reg_target"], want, rel_tol=1e-12, abs_tol=1e-12):
                viol.append(("C17:dual:initialize:regularisation-target" + ("" if target is None else ":explicit"),
                             f"one DualAveragingStepSizeAdapter(log_step_size_reg_target={target}) initialised twice (probe classes {a['hist']} then "
                             f"{b['hist']}): the {which} adapter state has log_step_size_reg_target {st['log_step_size_reg_target']} but "
                             + ("log(10 * initial step size)" if target is None else "the requested target is") + f" {want}",
                             {"engine": "adapters-init-seq", "first": a["hist"], "second": b["hist"]}))
                break
            if st["iter"] != 0 or st["smoothed_log_step_size"] != 0.0 or st["adapt_stat_error"] != 0.0:
                viol.append(("C17:dual:initialize:state-not-fresh", f"initialize returned a non-fresh adapter state {st}",
                             {"engine": "adapters-init-seq", "first": a["hist"], "second": b["hist"]}))
                break
    return viol, runs


def check_all(tier, name):
    leaves, stats, cfgs = run_spec(tier, name)
    viol, drift, runs = [], [], 0
    offsets = [(0.0, 1.0), (1e3, 0.5), (1e6, 1.0)] + ([(1e9, 2.0)] if tier == "thorough" else [])
    seen = set()
    nm = 0
    for leaf in leaves:
        if leaf["mode"] == "moments":
            nm += 1
            offs = offsets if (nm % 7 == 0 or len(leaf["hist"]) <= 2) else offsets[:1]
            v, d, r = check_moments(leaf, offs)
            v = [("C17", s, w, rp) for s, w, rp in v]
        elif leaf["mode"] == "dual":
            v, r = check_dual(leaf)
            v = [("C17", s, w, rp) for s, w, rp in v]
            d = []
        else:
            v, d, r = check_search(leaf)
            v = [("C17", s, w, rp) for s, w, rp in v]
        runs += r
        drift += d
        for x in v:
            if x[1] not in seen:
                seen.add(x[1])
                viol.append(x)
    v, r = check_initialize_sequence([l for l in leaves if l["mode"] == "search"])
    runs += r
    for sgn, what, rp in v:
        if sgn not in seen:
            seen.add(sgn)
            viol.append(("C17", sgn, what, rp))
    return {"leaves": leaves, "stats": stats, "viol": viol, "drift": drift, "runs": runs, "cfgs": cfgs}
