"""Thin wrapper around apalache-mc (symbolic checker) for inductive-invariant checks."""

from __future__ import annotations

import os
import re
import shutil
import subprocess
from pathlib import Path

from mbv.tlc import MachineryError


def check(workdir: Path, module_file: str, *, init: str, inv: str, length: int, timeout: int = 600) -> bool:
    """Run `apalache-mc check`; True = no error up to `length`, False = counterexample found."""
    exe = shutil.which("apalache-mc")
    if exe is None:
        raise MachineryError("apalache-mc not on PATH")
    out = workdir / f"apa_{init}_{inv}_{length}"
    env = dict(os.environ, JVM_ARGS="-Xmx3g")
    try:
        p = subprocess.run([exe, "check", f"--init={init}", f"--inv={inv}", f"--length={length}", f"--out-dir={out}",
                            f"--run-dir={out}/run", module_file],
                           cwd=workdir, capture_output=True, text=True, timeout=timeout, env=env, check=False)
    except subprocess.TimeoutExpired as e:
        raise MachineryError(f"apalache-mc timed out after {timeout}s on {module_file} init={init} inv={inv}") from e
    txt = p.stdout + p.stderr
    shutil.rmtree(out, ignore_errors=True)
    if re.search(r"EXITCODE: OK", txt) and "The outcome is: NoError" in txt:
        return True
    if "The outcome is: Error" in txt and "Checker has found an error" in txt:
        return False
    raise MachineryError(f"apalache-mc failed on {module_file} init={init} inv={inv}:\n{txt[-1500:]}")


def inductive(workdir: Path, module_file: str, *, init: str, ind_init: str, ind_inv: str, safety: list[str],
              action_invs: list[str] = (), timeout: int = 600) -> dict:
    """Init => IndInv;  IndInv /\\ Next => IndInv';  IndInv => each safety property;  IndInv /\\ Next => action invariants."""
    res = {"init_implies_indinv": check(workdir, module_file, init=init, inv=ind_inv, length=0, timeout=timeout),
           "indinv_inductive": check(workdir, module_file, init=ind_init, inv=ind_inv, length=1, timeout=timeout)}
    for s in safety:
        res[f"indinv_implies_{s}"] = check(workdir, module_file, init=ind_init, inv=s, length=0, timeout=timeout)
    for a in action_invs:
        res[f"step_preserves_{a}"] = check(workdir, module_file, init=ind_init, inv=a, length=1, timeout=timeout)
    return res
