"""Solver level (Solvers.tla) and chain level of C12."""

from __future__ import annotations

from mbv import solvers_engine as SE


def extend(out, tier, seed):
    r = SE.check_all(tier, f"c12_{tier}_solv")
    for owner, sig, what, rp in r["viol"]:
        if owner == "C12":
            out.violate(sig, what, rp)
    for d in r["drift"]:
        out.drift(d)
    sv, n = SE.steffensen_faults()
    for owner, sig, what in sv:
        out.violate(sig, what, {"engine": "steffensen"})
    cov = out.coverage
    cov["states"] = cov.get("states", 0) + r["stats"]["distinct"]
    cov["transitions"] = cov.get("transitions", 0) + r["stats"]["generated"]
    cov["traces_validated_against_impl"] = cov.get("traces_validated_against_impl", 0) + r["runs"]
    cov["solver_scripts_enumerated"] = len(r["behaviours"])
    cov["steffensen_fault_scripts"] = n
    try:
        from mbv import chain_faults
    except ImportError:
        chain_faults = None
    if chain_faults is not None:
        chain_faults.extend(out, tier, seed)


def replay(out, rep):
    if rep.get("engine") == "solvers":
        for owner, sig, what in SE.check_behaviour(rep["behaviour"])[0]:
            if owner == "C12":
                out.violate(sig, what, rep)
    elif rep.get("engine") == "steffensen":
        for owner, sig, what in SE.steffensen_faults()[0]:
            out.violate(sig, what, rep)
    else:
        from mbv import chain_faults
        chain_faults.replay(out, rep)
