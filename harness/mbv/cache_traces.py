"""code -> spec binding for StateCache.tla: real integrator steps and transitions are recorded
(assignments, copies, outermost system-method calls with the user functions they evaluated)
and validated by TLC against Trace_StateCache.tla; the same runs are repeated with caching
defeated and must give identical results (C09, second sentence), and the gradient-evaluation
bound is decided on the recorded counts (C18, last sentence).
"""

from __future__ import annotations

import math

import numpy as np

from mbv import tlc, zoo
from mbv import statecache_engine as SE
from mbv.tlc import MachineryError


class Recorder:
    def __init__(self):
        self.events, self.depth, self.nobj = [], 0, 0

    def new_oid(self):
        self.nobj += 1
        return self.nobj


def make_state_classes(rec: Recorder):
    from mici.errors import ReadOnlyStateError
    from mici.states import ChainState

    class RecState(ChainState):
        def __init__(self, **kw):
            super().__init__(**kw)
            self.__dict__["_oid"] = rec.new_oid()

        def __setattr__(self, name, value):
            if name in self._variables:
                try:
                    super().__setattr__(name, value)
                except ReadOnlyStateError:
                    rec.events.append({"op": "assign_ro", "o": self._oid, "v": name})
                    raise
                rec.events.append({"op": "assign", "o": self._oid, "v": name})
                return None
            return super().__setattr__(name, value)

        def copy(self, *, read_only=False):
            new = super().copy(read_only=read_only)
            rec.events.append({"op": "copy", "o": self._oid, "n": new._oid, "readonly": bool(read_only)})
            return new

    return RecState


class _NoCacheDict(dict):
    """A cache that never reports a hit: every memoised call re-evaluates."""

    def __contains__(self, k):
        return False

    def copy(self):
        return _NoCacheDict()


def make_nocache_class():
    from mici.states import ChainState

    class NoCacheState(ChainState):
        def __init__(self, **kw):
            super().__init__(**kw)
            self.__dict__["_cache"] = _NoCacheDict()

    return NoCacheState


def instrument(system, model, kind, rec: Recorder):
    """Wrap the documented system methods (instance attributes) to log outermost calls."""
    for m in SE.TABLE_METHODS[kind]:
        bound = getattr(system, m)

        def w(state, *a, _b=bound, _m=m, **k):
            if rec.depth > 0 or not hasattr(state, "_oid"):
                return _b(state, *a, **k)
            rec.depth += 1
            before = dict(model.calls)
            try:
                return _b(state, *a, **k)
            finally:
                rec.depth -= 1
                ev = sorted(f for f in model.calls if model.calls[f] > before.get(f, 0))
                rec.events.append({"op": "call", "s": 1, "m": _m, "o": state._oid, "evald": ev})

        setattr(system, m, w)


# --------------------------------------------------------------------------------------
# scenarios
# --------------------------------------------------------------------------------------
class _ScriptRng:
    """Deterministic stand-in for numpy Generator: reproducible regardless of call pattern."""

    def __init__(self, seed):
        self.g = np.random.default_rng(seed)

    def standard_normal(self, *a, **k):
        return self.g.standard_normal(*a, **k)

    def normal(self, *a, **k):
        return self.g.normal(*a, **k)

    def uniform(self, *a, **k):
        return self.g.uniform(*a, **k)

    def integers(self, *a, **k):
        return self.g.integers(*a, **k)


def scenario_list(tier):
    out = []
    for wa in (True, False):
        for integ in ("leapfrog", "bcss2", "bcss3", "bcss4"):
            out.append(dict(kind="Euclidean", flavour="-", with_aux=wa, integ=integ, what="steps", n=4))
            if integ in ("leapfrog", "bcss3"):
                out.append(dict(kind="Gaussian", flavour="-", with_aux=wa, integ=integ, what="steps", n=3))
        for trans in ("static", "random", "multinomial", "slice"):
            for warm in (False, True):
                out.append(dict(kind="Euclidean", flavour="-", with_aux=wa, integ="leapfrog", what=trans, n=3, warm=warm))
                if trans in ("static", "multinomial"):
                    out.append(dict(kind="Gaussian", flavour="-", with_aux=wa, integ="bcss2", what=trans, n=3, warm=warm))
        out.append(dict(kind="Euclidean", flavour="-", with_aux=wa, integ="leapfrog", what="chain", n=3))
        for fl in zoo.RIEMANNIAN_FLAVOURS:
            out.append(dict(kind="Riemannian", flavour=fl, with_aux=wa, integ="implicit_leapfrog", what="steps", n=2))
        out.append(dict(kind="Riemannian", flavour="diag", with_aux=wa, integ="implicit_midpoint", what="steps", n=2))
        out.append(dict(kind="Riemannian", flavour="diag", with_aux=wa, integ="implicit_leapfrog", what="static", n=2))
        out.append(dict(kind="SoftAbs", flavour="-", with_aux=wa, integ="implicit_leapfrog", what="steps", n=2))
        out.append(dict(kind="Euclidean", flavour="-", with_aux=wa, integ="implicit_midpoint", what="steps", n=2))
        for kind in ("Constrained", "ConstrainedHausdorff"):
            for solver in ("newton", "quasi_newton", "newton_line_search"):
                for ninner in (1, 2):
                    if solver != "newton" and ninner == 2 and tier == "quick":
                        continue
                    out.append(dict(kind=kind, flavour="-", with_aux=wa, integ="constrained", solver=solver,
                                    n_inner=ninner, what="steps", n=2))
            out.append(dict(kind=kind, flavour="-", with_aux=wa, integ="constrained", solver="newton",
                            n_inner=1, what="static", n=2))
    return out


def build(sc, state_cls):
    """Instantiate model, system, integrator and the initial state of a scenario."""
    import mici.integrators as I
    import mici.solvers as S

    model = zoo.Model(3, with_aux=sc["with_aux"])
    system = zoo.make_system(sc["kind"], model, flavour=sc["flavour"])
    step = 0.11
    ig = sc["integ"]
    if ig == "leapfrog":
        integ = I.LeapfrogIntegrator(system, step)
    elif ig == "bcss2":
        integ = I.BCSSTwoStageIntegrator(system, step)
    elif ig == "bcss3":
        integ = I.BCSSThreeStageIntegrator(system, step)
    elif ig == "bcss4":
        integ = I.BCSSFourStageIntegrator(system, step)
    elif ig == "implicit_leapfrog":
        integ = I.ImplicitLeapfrogIntegrator(system, 0.05)
    elif ig == "implicit_midpoint":
        integ = I.ImplicitMidpointIntegrator(system, 0.05)
    elif ig == "constrained":
        solver = {"newton": S.solve_projection_onto_manifold_newton,
                  "quasi_newton": S.solve_projection_onto_manifold_quasi_newton,
                  "newton_line_search": S.solve_projection_onto_manifold_newton_with_line_search}[sc["solver"]]
        integ = I.ConstrainedLeapfrogIntegrator(system, 0.07, n_inner_step=sc["n_inner"], projection_solver=solver)
    else:
        raise MachineryError(ig)
    if sc["kind"].startswith("Constrained"):
        pos = zoo.on_manifold_point(model, 3)
        state = state_cls(pos=pos, mom=None, dir=1)
        mom = system.sample_momentum(state, _ScriptRng(5))
        state = state_cls(pos=pos, mom=np.array(mom), dir=1)
    else:
        g = np.random.default_rng(11)
        state = state_cls(pos=g.standard_normal(3) * 0.5, mom=g.standard_normal(3) * 0.7, dir=1)
    model.calls.clear()
    return model, system, integ, state


def run_scenario(sc, state_cls, rec=None):
    import mici.transitions as T

    model, system, integ, state = build(sc, state_cls)
    if rec is not None:
        rec.events.clear()
        rec.nobj = 1  # the state just constructed is object 1 ... reset below
        state.__dict__["_oid"] = 1
        instrument(system, model, sc["kind"], rec)
    if sc.get("warm"):  # steady state of a chain: the current state already carries its gradient
        system.dh1_dpos(state)
        system.h(state)
    rng = _ScriptRng(21)
    stats_all = []
    what = sc["what"]
    if what == "steps":
        for _ in range(sc["n"]):
            state = integ.step(state)
    else:
        if what in ("static", "chain"):
            trans = T.MetropolisStaticIntegrationTransition(system, integ, n_step=sc["n"])
        elif what == "random":
            trans = T.MetropolisRandomIntegrationTransition(system, integ, n_step_range=(1, sc["n"] + 1))
        elif what == "multinomial":
            trans = T.MultinomialDynamicIntegrationTransition(system, integ, max_tree_depth=3)
        elif what == "slice":
            trans = T.SliceDynamicIntegrationTransition(system, integ, max_tree_depth=3)
        n_iter = 3 if what == "chain" else 1
        momt = T.CorrelatedMomentumTransition(system, 0.6) if what == "chain" else T.IndependentMomentumTransition(system)
        for _ in range(n_iter):
            state, _ = momt.sample(state, rng)
            state, st = trans.sample(state, rng)
            stats_all.append({k: (float(v) if not isinstance(v, (bool, np.bool_)) else bool(v)) for k, v in st.items()})
    return {"pos": np.array(state.pos), "mom": np.array(state.mom), "dir": int(state.dir), "stats": stats_all,
            "calls": dict(model.calls)}


def _equal_results(a, b):
    if not (np.allclose(a["pos"], b["pos"], rtol=1e-10, atol=1e-12) and np.allclose(a["mom"], b["mom"], rtol=1e-10, atol=1e-12)
            and a["dir"] == b["dir"] and len(a["stats"]) == len(b["stats"])):
        return False
    for x, y in zip(a["stats"], b["stats"]):
        for k in x:
            if isinstance(x[k], bool):
                if x[k] != y[k]:
                    return False
            elif not (math.isclose(x[k], y[k], rel_tol=1e-9, abs_tol=1e-12) or (math.isnan(x[k]) and math.isnan(y[k]))):
                return False
    return True


def _name(sc):
    return "/".join(str(sc[k]) for k in ("kind", "flavour", "integ", "what") if sc.get(k) not in (None, "-")) + \
        ("/warm" if sc.get("warm") else "") + \
        (f"/{sc['solver']}x{sc['n_inner']}" if sc.get("solver") else "") + ("/aux" if sc["with_aux"] else "/plain")


CFG = """SPECIFICATION TraceSpec
INVARIANT TypeOK
INVARIANT ReportEvals
INVARIANT ReportFresh
INVARIANT ReportRecompute
INVARIANT ReportGradBound
INVARIANT Consumed
POSTCONDITION AllConsumed
CHECK_DEADLOCK FALSE
"""


def _tlc_group(args):
    kind, wa, items, name = args
    tabs = SE.extract_tables(kind, items[0][0]["flavour"] if items[0][0]["flavour"] != "-" else "diag", wa)
    if [m for m in SE.documented_memo_methods()[kind] if m not in tabs["declared"]]:
        # the code no longer memoises a documented method: Trace_StateCache cannot be instantiated with the code's tables
        # (not a verdict; the counters of the recorded trajectories and the repeated-call family decide)
        return [{"unconsumed": [f"{kind}: model not instantiable (documented memoised method not memoised in the code)"]}], 0, 0
    nobj = max(max([e.get("n", 0) for e in ev] + [1]) for _, ev in items)
    d = tlc.fresh_dir(name)
    tlc.stage_specs(d, ["StateCache.tla", "CacheTables.tla", "Trace_StateCache.tla"])
    (d / "CacheConsts.tla").write_text(SE.consts_module(kind, tabs, nobj, 1, 10 ** 6, SE.ENTRY[kind]))

    def ev_tla(e):
        e = dict(e)
        if e["op"] == "call":
            e["evald"] = set(e["evald"])
            return "[" + ", ".join(f"{k} |-> {tlc.to_tla(v) if not (k == 'evald' and not v) else '{}'}" for k, v in e.items()) + "]"
        return tlc.to_tla(e)

    traces = ",\n ".join("<<" + ", ".join(ev_tla(e) for e in ev) + ">>" for _, ev in items)
    (d / "TraceDataSC.tla").write_text(f"---- MODULE TraceDataSC ----\nTraces == <<\n {traces}\n>>\n====\n")
    res = tlc.run_tlc(d, "Trace_StateCache", CFG, workers=1, timeout=1500, dump_trace=False, cpus=2, heap="3g")
    if not res.ok and res.error_kind != "postcondition":
        raise MachineryError(f"Trace_StateCache failed for {kind}: {res.violated}\n{res.stdout[-2500:]}")
    return res.printed, res.distinct, res.generated


def record_all(tier):
    """Runs every scenario three ways; returns (records, implementation-level findings)."""
    rec = Recorder()
    RecState = make_state_classes(rec)
    NoCache = make_nocache_class()
    from mici.states import ChainState

    records, findings = [], []
    for sc in scenario_list(tier):
        name = _name(sc)
        plain = run_scenario(sc, ChainState)
        rec.events, rec.nobj, rec.depth = [], 0, 0
        recd = run_scenario(sc, RecState, rec)
        events = list(rec.events)
        nocache = run_scenario(sc, NoCache)
        if not _equal_results(plain, recd):
            raise MachineryError(f"recording perturbs the run in scenario {name}")
        if not _equal_results(plain, nocache):
            findings.append(("C09", f"C09:cache-defeated-differential:{sc['kind']}:{sc['integ']}:{sc['what']}",
                             f"{name}: result with caching defeated differs from result with caching active",
                             {"engine": "cache_traces", "scenario": sc}))
        # gradient bound for explicit integrators on unconstrained Euclidean-metric systems
        nposassign = sum(1 for e in events if e["op"] == "assign" and e["v"] == "pos")
        g = plain["calls"].get("grad_neg_log_dens", 0)
        if sc["integ"] in ("leapfrog", "bcss2", "bcss3", "bcss4") and sc["kind"] in ("Euclidean", "Gaussian"):
            bound = nposassign + 1  # (for a warm start the one extra evaluation is the warm-up call itself)
            if g > bound:
                start = "warm" if sc.get("warm") else "cold"
                findings.append(("C18", f"C18:gradient-bound:{sc['what']}:{start}-start:excess={g - bound}",
                                 f"{name}: {g} gradient evaluations for {nposassign} new positions from a {start} start "
                                 f"(bound {bound}: one per new position{'' if sc.get('warm') else ' + 1 for the initial state'})",
                                 {"engine": "cache_traces", "scenario": sc}))
            if sc["integ"] == "leapfrog" and sc["what"] == "steps" and g != sc["n"] + 1:
                findings.append(("C18", f"C18:leapfrog-n-plus-1:{sc['kind']}",
                                 f"{name}: leapfrog trajectory of {sc['n']} steps evaluated the gradient {g} times (n + 1 expected)",
                                 {"engine": "cache_traces", "scenario": sc}))
        # lower-order values delivered by derivative functions cost nothing
        # (the only legitimate evaluation of the value itself is h(state) at the very first state,
        # before any gradient has been requested for it)
        if sc["with_aux"] and sc["kind"] in ("Euclidean", "Gaussian") and plain["calls"].get("neg_log_dens", 0) > (
                0 if sc["what"] == "steps" or sc.get("warm") else 1):  # noqa: E501
            findings.append(("C18", f"C18:aux-value-recomputed:{sc['kind']}:{sc['integ']}:{sc['what']}",
                             f"{name}: neg_log_dens evaluated {plain['calls']['neg_log_dens']} times although every gradient call returns the value",
                             {"engine": "cache_traces", "scenario": sc}))
        records.append((sc, events, plain["calls"]))
    return records, findings


def validate(records, tier, pid):
    import multiprocessing as mp

    groups = {}
    for sc, ev, _ in records:
        groups.setdefault((sc["kind"], sc["with_aux"]), []).append((sc, ev))
    jobs = [(k[0], k[1], items, f"sctrace_{pid.lower()}_{tier}_{k[0]}_{'aux' if k[1] else 'plain'}")
            for k, items in groups.items()]
    with mp.get_context("fork").Pool(min(12, len(jobs))) as pool:
        outs = pool.map(_tlc_group, jobs, chunksize=1)
    reports, states, trans = [], 0, 0
    for (kind, wa, items, _), (printed, distinct, generated) in zip(jobs, outs):
        states += distinct
        trans += generated
        for p in printed:
            if isinstance(p, dict):
                p["kind_"], p["with_aux"] = kind, wa
                if "at" in p:
                    p["scenario"] = items[p["at"]["tid"] - 1][0]
                reports.append(p)
    return reports, states, trans


def extend(out, tier, seed):
    pid = out.property_id
    records, findings = record_all(tier)
    for owner, sig, what, rp in findings:
        if owner == pid:
            out.violate(sig, what, rp)
    reports, states, trans = validate(records, tier, pid)
    n_ok = len(records)
    for r in reports:
        if "unconsumed" in r:
            n_ok -= len(r["unconsumed"])
            out.drift(f"trace(s) not fully consumed by Trace_StateCache ({r['kind_']}): {r['unconsumed']}")
            continue
        name = _name(r["scenario"])
        rp = {"engine": "cache_traces", "scenario": r["scenario"]}
        if r["kind"] == "stale" and pid == "C09":
            out.drift(f"{name}: spec marks {r['m']} (object {r['o']}, event {r['at']['l']}) as stale on a real trace "
                      "(the cache-defeated differential decides)")
        elif r["kind"] == "recompute" and pid == "C18":
            out.violate(f"C18:trace-recompute:{r['scenario']['kind']}.{r['m']}:{','.join(r['impl'])}",
                        f"{name}: {r['m']} re-evaluated {r['impl']} at event {r['at']['l']} although available by contract", rp)
        elif r["kind"] == "gradbound" and pid == "C18":
            sc_ = r["scenario"]
            if sc_["integ"] in ("leapfrog", "bcss2", "bcss3", "bcss4") and sc_["kind"] in ("Euclidean", "Gaussian"):
                start = "warm" if sc_.get("warm") else "cold"
                out.violate(f"C18:gradient-bound:{sc_['what']}:{start}-start:excess={r['gevals'] - r['nposassign'] - 1}",
                            f"{name}: {r['gevals']} gradient evaluations for {r['nposassign']} new positions (TLC trace validation)", rp)
        elif r["kind"] == "evals":
            out.drift(f"{name}: at event {r['at']['l']} {r['m']} evaluated {r['impl']}, spec predicts {r['spec']}")
    cov = out.coverage
    cov["traces_validated_against_impl"] = cov.get("traces_validated_against_impl", 0) + max(n_ok, 0)
    cov["real_trajectory_traces"] = len(records)
    cov["real_trajectory_events"] = sum(len(ev) for _, ev, _ in records)
    cov["trace_states"] = states
    cov["states"] = cov.get("states", 0) + states
    cov["transitions"] = cov.get("transitions", 0) + trans
    cov["cache_defeated_differential_runs"] = len(records)
    if records:
        sc, ev, calls = records[0]
        cov.setdefault("samples", []).append({"real_trace": _name(sc), "events": ev[:12], "user_function_calls": calls})


def replay(out, rep):
    sc = rep["scenario"]
    rec = Recorder()
    RecState = make_state_classes(rec)
    from mici.states import ChainState

    plain = run_scenario(sc, ChainState)
    nocache = run_scenario(sc, make_nocache_class())
    if out.property_id == "C09" and not _equal_results(plain, nocache):
        out.violate("replay", "cache-defeated result differs", rep)
    if out.property_id == "C18":
        recd = run_scenario(sc, RecState, rec)
        npos = sum(1 for e in rec.events if e["op"] == "assign" and e["v"] == "pos")
        if plain["calls"].get("grad_neg_log_dens", 0) > npos + 1:
            out.violate("replay", "gradient bound exceeded", rep)
