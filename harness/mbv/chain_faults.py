"""Chain level of C12: one fault injected at every call index of a short real chain, for every fault
kind, integrator and transition; per-iteration records validated by TLC against ChainMonitor.tla."""

from __future__ import annotations

import logging
import warnings

import numpy as np

from mbv import tlc, zoo
from mbv.tlc import MachineryError

FAULTS = ("nan", "inf", "-inf", "ValueError", "LinAlgError")
N_ITER = 3


class _Plan:
    def __init__(self):
        self.at, self.kind, self.in_solver, self.count, self.fired_iter = None, None, 0, 0, None
        self.cur_iter = 0
        self.site = ""
        self.steps_in_iter = 0        # integrator steps started in the current iteration
        self.fired_after_steps = -1   # ... when the fault fired


def call_site():
    """Where in the library the user function was called from when the fault fired: the integrator-level
    sub-step (first frame of integrators.py below step/_step, or `transition` when the call is made by the
    transition itself) and the outermost / innermost system methods on the stack."""
    import sys

    f = sys._getframe(2)
    frames = []
    while f is not None:
        fn = f.f_code.co_filename.replace("\\", "/")
        if "/mici/" in fn:
            frames.append((fn.rsplit("/", 1)[1][:-3], f.f_code.co_name))
        f = f.f_back
    frames.reverse()    # outermost first
    integ = [n for m, n in frames if m == "integrators" and n not in ("step", "_step")]
    solv = [n for m, n in frames if m == "solvers"]
    syst = [n for m, n in frames if m == "systems" and n not in ("wrapper", "<lambda>")]
    parts = [integ[0] if integ else "transition"]
    if solv:
        parts.append(solv[0])
    if syst:
        parts.append(syst[0])
        if len(syst) > 1:
            parts.append(syst[-1])
    return ">".join(parts)


def scenarios(tier):
    sc = []
    for trans in ("static", "multinomial", "slice"):
        sc.append(dict(system="Euclidean", integ="leapfrog", trans=trans))
    sc.append(dict(system="Riemannian", integ="implicit_leapfrog", trans="static"))
    sc.append(dict(system="Riemannian", integ="implicit_midpoint", trans="static"))
    sc.append(dict(system="Constrained", integ="constrained", trans="static", solver="newton"))
    sc.append(dict(system="Constrained", integ="constrained", trans="multinomial", solver="quasi_newton"))
    sc.append(dict(system="ConstrainedHausdorff", integ="constrained", trans="static", solver="newton_line_search"))
    if tier == "thorough":
        sc.append(dict(system="SoftAbs", integ="implicit_leapfrog", trans="multinomial"))
        sc.append(dict(system="Gaussian", integ="leapfrog", trans="multinomial"))
        sc.append(dict(system="GaussianConstrained", integ="constrained", trans="static", solver="newton"))
    return sc


def run_chain(sc, fault_kind, at, seed=3):
    """Run N_ITER iterations with a fault at the `at`-th user-function call (None: no fault).
    Returns dict(record for the monitor, total user-function calls)."""
    import mici.integrators as I
    import mici.solvers as S
    import mici.transitions as T
    from mici.errors import IntegratorError, LinAlgError
    from mici.states import ChainState

    logging.disable(logging.CRITICAL)
    plan = _Plan()
    plan.at, plan.kind = at, fault_kind

    def fault(name, _total):
        plan.count += 1
        if plan.at is None or plan.count != plan.at:
            return None
        if plan.kind in ("ValueError", "LinAlgError"):
            if plan.in_solver == 0:
                return None          # exceptions are only injected inside iterative solves
            plan.fired_iter, plan.fired_after_steps = plan.cur_iter, plan.steps_in_iter
            plan.site = call_site()
            return ValueError("injected") if plan.kind == "ValueError" else LinAlgError("injected")
        plan.fired_iter, plan.fired_after_steps = plan.cur_iter, plan.steps_in_iter
        plan.site = call_site()
        return plan.kind

    n = 3
    model = zoo.Model(n, fault=fault)
    system = zoo.make_system(sc["system"], model, metric="diag", flavour="diag")

    def in_solver(fn):
        def w(*a, **k):
            plan.in_solver += 1
            try:
                return fn(*a, **k)
            finally:
                plan.in_solver -= 1
        return w

    ig = sc["integ"]
    if ig == "leapfrog":
        integ = I.LeapfrogIntegrator(system, 0.2)
    elif ig == "implicit_leapfrog":
        integ = I.ImplicitLeapfrogIntegrator(system, 0.1, fixed_point_solver=in_solver(S.solve_fixed_point_direct))
    elif ig == "implicit_midpoint":
        integ = I.ImplicitMidpointIntegrator(system, 0.1, fixed_point_solver=in_solver(S.solve_fixed_point_steffensen))
    else:
        solver = {"newton": S.solve_projection_onto_manifold_newton, "quasi_newton": S.solve_projection_onto_manifold_quasi_newton,
                  "newton_line_search": S.solve_projection_onto_manifold_newton_with_line_search}[sc["solver"]]
        integ = I.ConstrainedLeapfrogIntegrator(system, 0.1, projection_solver=in_solver(solver))
    errs_this_iter = []
    real_step = integ.step
    # candidates generated in the current iteration: [position, clean]; a candidate is clean if the fault had not
    # fired by the time the transition was done with it (its energy evaluated, the next step requested)
    cands = []

    def settle():
        if cands and cands[-1][1] is None:
            cands[-1][1] = plan.fired_iter is None or plan.fired_iter < plan.cur_iter

    def step(state):
        settle()
        plan.steps_in_iter += 1
        try:
            new = real_step(state)
        except IntegratorError as e:
            errs_this_iter.append(type(e).__name__)
            raise
        cands.append([np.array(new.pos), None])
        return new

    integ.step = step
    if sc["trans"] == "static":
        trans = T.MetropolisStaticIntegrationTransition(system, integ, n_step=2)
    elif sc["trans"] == "multinomial":
        trans = T.MultinomialDynamicIntegrationTransition(system, integ, max_tree_depth=2)
    else:
        trans = T.SliceDynamicIntegrationTransition(system, integ, max_tree_depth=2)
    momt = T.IndependentMomentumTransition(system)
    rng = np.random.default_rng(seed)
    clean = zoo.Model(n)
    clean_sys = zoo.make_system(sc["system"], clean, metric="diag", flavour="diag")
    # start from a clean state (no faults while constructing it)
    saved, plan.at = plan.at, None
    if "Constrained" in sc["system"]:
        pos = zoo.on_manifold_point(model, 3)
    else:
        pos = np.array([0.3, -0.2, 0.5])
    state = ChainState(pos=pos, mom=None, dir=1)
    state.mom = system.sample_momentum(state, rng)
    plan.count = 0
    plan.at = saved
    iters, escaped = [], ""
    for it in range(1, N_ITER + 1):
        plan.cur_iter = it
        plan.steps_in_iter = 0
        errs_this_iter.clear()
        cands.clear()
        prev = np.array(state.pos)
        try:
            with warnings.catch_warnings():
                warnings.simplefilter("ignore")
                state, _ = momt.sample(state, rng)
                state, st = trans.sample(state, rng)
        except BaseException as e:  # noqa: BLE001
            if isinstance(e, (KeyboardInterrupt, SystemExit)):
                raise
            escaped = f"{type(e).__name__}: {e}"[:120]
            break
        settle()
        fin = bool(np.all(np.isfinite(state.pos)) and np.all(np.isfinite(state.mom)))
        moved = bool(not np.array_equal(prev, state.pos))
        # the new state is a candidate the transition finished with only after the fault had fired
        match = [c for c in cands if np.array_equal(c[0], state.pos)]
        postfault = bool(moved and match and not any(c[1] for c in match))
        valid = False
        if fin:
            chk = ChainState(pos=np.array(state.pos), mom=np.array(state.mom), dir=1)
            try:
                valid = bool(np.isfinite(clean_sys.h(chk)))
                if valid and "Constrained" in sc["system"]:
                    valid = bool(np.max(np.abs(clean._c(chk.pos))) < 1e-6)
            except Exception:  # noqa: BLE001
                valid = False
        acc = st["accept_stat"]
        iters.append({"errs": sorted(set(errs_this_iter)), "conv": bool(st["convergence_error"]),
                      "nonrev": bool(st["non_reversible_step"]), "div": bool(st.get("diverging", False)),
                      "accfinite": bool(np.isfinite(acc) and 0.0 <= acc <= 1.0), "acczero": bool(acc == 0.0),
                      "finite": fin, "valid": valid, "moved": moved, "postfault": postfault,
                      "intraj": bool(plan.fired_iter == it and plan.fired_after_steps >= 1),
                      "hfault": bool(plan.fired_iter == it and plan.fired_after_steps >= 1 and plan.site.startswith("transition>h")),
                      "faulted": plan.fired_iter == it})
    return {"kind": f"{sc['system']}/{sc['integ']}/{sc['trans']}" + (f"/{sc['solver']}" if sc.get("solver") else ""),
            "fault": fault_kind or "none", "at": at or 0, "completed": len(iters) == N_ITER, "escaped": escaped,
            "iters": iters, "fired": plan.fired_iter is not None, "sc": sc, "site": plan.site,
            "dynamic": sc["trans"] != "static"}, plan.count


INVS = ["ChainContinues", "StateStaysValid", "FlagsRecordFailures", "FailureIsRejection", "NoSpuriousFlags",
        "NoPostFaultCandidate", "DivergenceRecorded"]


def validate(records, name):
    d = tlc.fresh_dir(name)
    tlc.stage_specs(d, ["ChainMonitor.tla"])

    def it_tla(r):
        return ("[errs |-> %s, conv |-> %s, nonrev |-> %s, div |-> %s, accfinite |-> %s, acczero |-> %s, finite |-> %s, "
                "valid |-> %s, moved |-> %s, faulted |-> %s, postfault |-> %s, intraj |-> %s, hfault |-> %s]") % (
            tlc.to_tla(set(r["errs"])) if r["errs"] else "{}", *(tlc.to_tla(r[k]) for k in
                                                                  ("conv", "nonrev", "div", "accfinite", "acczero", "finite", "valid", "moved", "faulted", "postfault", "intraj", "hfault")))

    chains = ",\n ".join('[kind |-> %s, fault |-> %s, at |-> %d, completed |-> %s, escaped |-> %s, dynamic |-> %s, iters |-> <<%s>>]' % (
        tlc.tla_str(r["kind"]), tlc.tla_str(r["fault"]), r["at"], tlc.to_tla(r["completed"]), tlc.tla_str(r["escaped"]), tlc.to_tla(r["dynamic"]),
        ", ".join(it_tla(x) for x in r["iters"])) for r in records)
    (d / "ChainData.tla").write_text(f"---- MODULE ChainData ----\nChains == <<\n {chains}\n>>\n====\n")
    failures, states = [], 0
    todo = list(range(len(records)))
    for inv in INVS:
        cur = list(todo)
        guard = 0
        while cur and guard < 60:
            guard += 1
            chains_sub = ",\n ".join('[kind |-> %s, fault |-> %s, at |-> %d, completed |-> %s, escaped |-> %s, dynamic |-> %s, iters |-> <<%s>>]' % (
                tlc.tla_str(records[j]["kind"]), tlc.tla_str(records[j]["fault"]), records[j]["at"], tlc.to_tla(records[j]["completed"]),
                tlc.tla_str(records[j]["escaped"]), tlc.to_tla(records[j]["dynamic"]), ", ".join(it_tla(x) for x in records[j]["iters"])) for j in cur)
            (d / "ChainData.tla").write_text(f"---- MODULE ChainData ----\nChains == <<\n {chains_sub}\n>>\n====\n")
            res = tlc.run_tlc(d, "ChainMonitor", f"SPECIFICATION Spec\nINVARIANT {inv}\nCHECK_DEADLOCK FALSE\n", workers=2, timeout=600, cpus=2)
            states += res.distinct
            if res.ok:
                break
            if res.error_kind != "invariant" or not res.trace:
                raise MachineryError(f"ChainMonitor failed: {res.violated}\n{res.stdout[-1500:]}")
            qi = res.trace[-1]["q"]
            failures.append((cur[qi - 1], inv, res.trace[-1]["i"]))
            # drop all chains of the same class (system, integrator, fault class, escaping exception type):
            # one report per class is enough
            bad = records[cur[qi - 1]]

            def cls(r):
                return (r["sc"]["system"], r["sc"]["integ"], r["sc"].get("solver"), r["fault"] in ("nan", "inf", "-inf") or r["fault"],
                        r["escaped"].split(":")[0], r["site"] if r["escaped"] else "")

            cur = [j for j in cur if cls(records[j]) != cls(bad)]
    return failures, states


def extend(out, tier, seed):
    records = []
    for sc in scenarios(tier):
        base, ncalls = run_chain(sc, None, None)
        records.append(base)
        step = 1 if (tier == "thorough" or ncalls <= 60) else max(1, ncalls // 60)
        for kind in FAULTS:
            for at in range(1, ncalls + 1, step):
                rec, _ = run_chain(sc, kind, at)
                if rec["fired"] or rec["escaped"]:
                    records.append(rec)
    failures, states = validate(records, f"c12_{tier}_chain")
    for j, inv, i in failures:
        r = records[j]
        itrec = r["iters"][i - 1] if 0 < i <= len(r["iters"]) else None
        fclass = "nonfinite-model-output" if r["fault"] in ("nan", "inf", "-inf") else r["fault"]
        integ = r["sc"]["integ"] + (f"[{r['sc']['solver']}]" if r["sc"].get("solver") else "")
        sig = f"C12:chain:{r['sc']['system']}:{integ}:{fclass}:{inv}" + (
            f":{r['escaped'].split(':')[0]}:at={r['site']}" if r["escaped"] else "")
        out.violate(sig,
                    f"{r['kind']}: fault {r['fault']} at user-function call {r['at']} (made from {r['site']}): {inv} violated"
                    + (f" in iteration {i}: {itrec}" if itrec else f" (escaped: {r['escaped']}, completed: {r['completed']})"),
                    {"engine": "chain-faults", "sc": r["sc"], "fault": r["fault"], "at": r["at"]})
    cov = out.coverage
    cov["states"] = cov.get("states", 0) + states
    cov["transitions"] = cov.get("transitions", 0) + states
    cov["traces_validated_against_impl"] = cov.get("traces_validated_against_impl", 0) + len(records)
    cov["chain_fault_runs"] = len(records)
    cov["chain_fault_scenarios"] = sorted({r["kind"] for r in records})
    if records:
        r = records[len(records) // 2]
        cov.setdefault("samples", []).append({"chain": r["kind"], "fault": r["fault"], "at_call": r["at"], "iterations": r["iters"]})


def replay(out, rep):
    rec, _ = run_chain(rep["sc"], rep["fault"], rep["at"])
    failures, _ = validate([rec], "c12_replay_chain")
    for j, inv, i in failures:
        out.violate(inv, inv, rep)
