"""bin/check entry point: `check <ID> quick|thorough` or `check <ID> --replay <file>`."""

from __future__ import annotations

import importlib
import json
import os
import sys
import time
import traceback

from mbv.tlc import MachineryError
from mbv.verdict import finish


def main(argv: list[str]) -> int:
    if len(argv) < 2:
        print("usage: check <ID> quick|thorough | check <ID> --replay <file>", file=sys.stderr)
        return 2
    pid = argv[0].upper()
    seed = int(os.environ.get("VERIF_SEED", "0") or 0)
    t0 = time.time()
    try:
        mod = importlib.import_module(f"mbv.props.{pid.lower()}")
    except ImportError:
        traceback.print_exc()
        return 2
    try:
        if argv[1] == "--replay":
            rep = json.loads(open(argv[2]).read())
            out = mod.replay(rep["replay"])
            tier = os.environ.get("VERIF_TIER", "quick")
            if out.violations:
                for v in out.violations:
                    print(f"REPLAY-VIOLATION property={pid} {v.signature}: {v.what}")
                return 1
            print(f"REPLAY-OK property={pid}")
            return 0
        tier = argv[1]
        if tier not in ("quick", "thorough"):
            tier = os.environ.get("VERIF_TIER", "quick")
        out = mod.run(tier, seed)
        return finish(out, tier, seed, t0)
    except MachineryError as e:
        print(f"MACHINERY-FAILURE property={pid}: {e}", file=sys.stderr)
        return 2
    except Exception:  # noqa: BLE001
        traceback.print_exc()
        print(f"MACHINERY-FAILURE property={pid}: unexpected exception in harness", file=sys.stderr)
        return 2


if __name__ == "__main__":
    sys.exit(main(sys.argv[1:]))
