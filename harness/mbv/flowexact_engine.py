"""Engine for specs/FlowExact.tla (C07): exact rational component flows of the tractable-flow systems,
demanded from the real h1_flow / h2_flow / dh2_flow_dmom."""

from __future__ import annotations

import math
from concurrent.futures import ThreadPoolExecutor
from fractions import Fraction

import numpy as np

from mbv import tlc, zoo
from mbv.sysgrad_engine import _rat_tla
from mbv.tlc import MachineryError

THETA = math.atan2(3.0, -4.0)
# (mostly integer states: the exact flows multiply them by powers of 1/5 and by the inverse metric)
STATES = [{"q": ["1", "-1", "2"], "p": ["2", "1", "-1"]}, {"q": ["-2", "1", "0"], "p": ["1", "1", "-1"]},
          {"q": ["1/2", "-1", "1"], "p": ["1", "-1/2", "2"]}]

CFG = """SPECIFICATION Spec
CONSTANT Cases <- CasesDef
INVARIANT MetricPosDef
INVARIANT ConservesEnergy
INVARIANT UndoneByNegativeTime
INVARIANT AdditiveInTime
INVARIANT Export
CHECK_DEADLOCK FALSE
"""


def cases(tier):
    out = []
    nst = 2 if tier == "quick" else 3
    for si in range(nst):
        t1s = ["1/2", "-3/4"]
        k = 0
        for metric in ("identity", "diag", "dense"):
            for t in (["1/2", "-3/4", "7"] if metric != "diag" or tier == "thorough" else ["1/2", "7"]):
                out.append(dict(sys="Euclidean", metric=metric, curved=True, st=si, t=t, h1=(t == "1/2"), t1=t1s[k % 2]))
                k += 1
        out.append(dict(sys="Constrained", metric="dense", curved=True, st=si, t="-3/4", h1=True, t1="1/2"))
        out.append(dict(sys="Constrained", metric="identity", curved=True, st=si, t="1/2", h1=True, t1="1/2"))
        out.append(dict(sys="Constrained", metric="diag", curved=False, st=si, t="7", h1=True, t1="-3/4"))
        out.append(dict(sys="ConstrainedHausdorff", metric="dense", curved=True, st=si, t="1/2", h1=True, t1="-3/4"))
        # ("diagk2": diag(1, 1/4, 1) at |t| = 3*theta = 7.5 > 2*pi -- a non-identity metric over more than a period)
        # ("diaghalf": diag(4, 1, 4), frequencies 1/2, 1, 1/2, time unit 2*theta: |t| = 2*2*theta = 10 > 2*pi with a
        #  frequency that is not an integer)
        for metric, js in (("identity", (1, -2, 3)), ("diagk", (1, -1)), ("rotk", (1, -1)), ("diagk2", (3, -3)), ("diaghalf", (2, -1)), ("blockk", (1, -1)),
                           ("scalhalf", (1, -2)), ("scalk2", (1, -2))):
            for j in js:
                out.append(dict(sys="Gaussian", metric=metric, curved=True, st=si, t=j, h1=(j == 1), t1=t1s[(si + j) % 2]))
        out.append(dict(sys="GaussianConstrained", metric="diagk", curved=True, st=si, t=1, h1=True, t1="1/2"))
        out.append(dict(sys="GaussianConstrained", metric="identity", curved=True, st=si, t=3, h1=False, t1="1/2"))
        out.append(dict(sys="GaussianConstrained", metric="scalk2", curved=True, st=si, t=-1, h1=False, t1="1/2"))
        out.append(dict(sys="GaussianConstrained", metric="rotk", curved=si % 2 == 0, st=si, t=-1, h1=True, t1="-3/4"))
    return out


def _case_tla(c):
    st = STATES[c["st"]]
    t = str(c["t"]) if isinstance(c["t"], int) else _rat_tla(c["t"])
    return ('[sys |-> %s, metric |-> %s, curved |-> %s, st |-> [q |-> <<%s>>, p |-> <<%s>>], t |-> %s, h1 |-> %s, t1 |-> %s]' % (
        tlc.tla_str(c["sys"]), tlc.tla_str(c["metric"]), tlc.to_tla(c["curved"]),
        ", ".join(_rat_tla(x) for x in st["q"]), ", ".join(_rat_tla(x) for x in st["p"]), t, tlc.to_tla(c["h1"]), _rat_tla(c["t1"])))


def run_spec(cs, name, shards=14):
    shards = max(1, min(shards, len(cs)))
    parts = [cs[i::shards] for i in range(shards)]

    def one(a):
        idx, part = a
        d = tlc.fresh_dir(f"{name}_{idx}")
        tlc.stage_specs(d, ["FlowExact.tla", "ZooModel.tla"])
        (d / "MCFlowExact.tla").write_text("---- MODULE MCFlowExact ----\nEXTENDS FlowExact\nCasesDef == {\n "
                                           + ",\n ".join(_case_tla(c) for c in part) + "\n}\n====\n")
        return tlc.run_tlc(d, "MCFlowExact", CFG, workers=1, timeout=1700, cpus=1, heap="2g", stack="64m")

    with ThreadPoolExecutor(max_workers=shards) as ex:
        results = list(ex.map(one, enumerate(parts)))
    recs, gen, dist = [], 0, 0
    for r in results:
        if not r.ok:
            raise MachineryError(f"FlowExact.tla violates its own identities: {r.violated}\n{r.stdout[-1500:]}")
        gen += r.generated
        dist += r.distinct
        recs += [p for p in r.printed if isinstance(p, dict) and "dpos_dmom" in p]
    if len(recs) != len(cs):
        raise MachineryError(f"FlowExact export incomplete: {len(recs)} of {len(cs)} cases")
    return recs, {"generated": gen, "distinct": dist}


def _r(x):
    return x[0] / x[1]


def _vec(v):
    return np.array([_r(x) for x in v], dtype=float)


def _mat(m):
    return np.array([[_r(x) for x in row] for row in m], dtype=float)


def build_system(kind, metric_name, curved, marray, with_aux=False):
    import mici.systems as S

    model = zoo.Model(3, with_aux=with_aux, curved=curved)
    if metric_name == "identity":
        metric = None
    elif metric_name in ("diag", "diagk", "diagk2", "diaghalf"):
        metric = np.diag(marray).copy()
        if np.all(metric == np.round(metric)):
            metric = metric.astype(np.int64)      # an integer-valued diagonal metric given with an integer dtype
    elif metric_name in ("scalhalf", "scalk2"):
        # isotropic metrics as scaled-identity matrix objects: implicit size for one, explicit size for the other
        import mici.matrices as MM
        metric = MM.PositiveScaledIdentityMatrix(float(marray[0, 0]), None if metric_name == "scalhalf" else 3)
    elif metric_name == "blockk":
        import mici.matrices as MM
        metric = MM.PositiveDefiniteBlockDiagonalMatrix((MM.PositiveDiagonalMatrix(np.array([marray[0, 0]])),
                                                         MM.DensePositiveDefiniteMatrix(marray[1:, 1:].copy())))
    else:
        metric = marray.copy()
    kw = dict(metric=metric, grad_neg_log_dens=model.grad_neg_log_dens)
    if kind == "Euclidean":
        return model, S.EuclideanMetricSystem(model.neg_log_dens, **kw)
    if kind == "Gaussian":
        return model, S.GaussianEuclideanMetricSystem(model.neg_log_dens, **kw)
    ckw = dict(jacob_constr=model.jacob_constr, mhp_constr=model.mhp_constr, **kw)
    if kind in ("Constrained", "ConstrainedHausdorff"):
        return model, S.DenseConstrainedEuclideanMetricSystem(model.neg_log_dens, model.constr,
                                                              dens_wrt_hausdorff=(kind == "ConstrainedHausdorff"), **ckw)
    return model, S.GaussianDenseConstrainedEuclideanMetricSystem(model.neg_log_dens, model.constr, **ckw)


def check_against_real(recs):
    from mici.states import ChainState

    viol, n, seen = [], 0, set()

    def add(sig, what, rp):
        if sig not in seen:
            seen.add(sig)
            viol.append(("C07", sig, what, rp))

    for rec in recs:
        kind, metric, curved = rec["sys"], rec["metric"], rec["curved"]
        gauss = kind in ("Gaussian", "GaussianConstrained")
        q, p = _vec(rec["q"]), _vec(rec["p"])
        unit = 2 * THETA if metric in ("diaghalf", "scalhalf") else THETA
        t = rec["t"] * unit if gauss else _r(rec["t"])
        tdesc = f"{rec['t'] * (2 if metric in ('diaghalf', 'scalhalf') else 1)}*atan2(3,-4)" if gauss else f"{Fraction(rec['t'][0], rec['t'][1])}"
        marray = _mat(rec["marray"])
        tag = f"{kind}[{metric}]"
        rp = {"engine": "flowexact", "case": {k: rec[k] for k in ("sys", "metric", "curved", "q", "p", "t")}}
        # how the system came to have its metric: built with it; built with another one, used, and the metric
        # reassigned (what the metric adapters do); dense metrics also as the inverse of an already used object
        histories = [("built", False), ("reassigned", True)]
        if metric in ("dense", "rotk"):
            histories.append(("inverse-of-used", False))
        if metric == "blockk":
            histories = histories[:1]
        for hi, (how, with_aux) in enumerate(histories):
            model, system = build_system(kind, metric if how != "reassigned" else ("diag" if metric != "diag" else "dense"), curved,
                                         marray if how != "reassigned" else (np.diag([1.5, 0.7, 2.0]) if metric != "diag" else
                                                                             np.array([[2.0, 0.3, 0.1], [0.3, 1.0, -0.2], [0.1, -0.2, 1.5]])), with_aux)
            if how == "reassigned":
                warm = ChainState(pos=q.copy(), mom=p.copy(), dir=1)
                system.h2_flow(warm, 0.3)
                system.h2_flow(warm, t)
                if hasattr(system, "dh2_flow_dmom"):
                    system.dh2_flow_dmom(warm, t)
                _, target = build_system(kind, metric, curved, marray, with_aux)
                system.metric = target.metric
            elif how == "inverse-of-used":
                import mici.matrices as MM
                used = MM.DensePositiveDefiniteMatrix(np.linalg.inv(marray))
                _ = used.eigval, used.eigvec.array, float(used.log_abs_det)
                system.metric = used.inv
            tag = f"{kind}[{metric}]" + ("" if how == "built" else f"({how})")
            if not np.allclose(np.asarray(np.eye(3) if metric == "identity" else (system.metric @ np.eye(3)) if metric.startswith("scal") else system.metric.array), marray, rtol=1e-10, atol=1e-12):
                raise MachineryError("real metric differs from the spec's metric")
            # h2_flow
            st = ChainState(pos=q.copy(), mom=p.copy(), dir=1)
            try:
                system.h2_flow(st, t)
                wq, wp = _vec(rec["h2"]["q"]), _vec(rec["h2"]["p"])
                n += 6
                sc = max(1.0, float(np.max(np.abs(np.concatenate([wq, wp])))))
                if not (np.allclose(st.pos, wq, rtol=0, atol=1e-9 * sc) and np.allclose(st.mom, wp, rtol=0, atol=1e-9 * sc)):
                    add(f"C07:{tag}:h2_flow", f"{type(system).__name__} ({tag}).h2_flow over time {tdesc} from q={q.tolist()}, p={p.tolist()} gives "
                        f"q={np.round(st.pos, 9).tolist()}, p={np.round(st.mom, 9).tolist()}; the exact flow of h2 gives q={np.round(wq, 9).tolist()}, "
                        f"p={np.round(wp, 9).tolist()}", rp)
            except Exception as e:  # noqa: BLE001
                add(f"C07:{tag}:h2_flow:exception:{type(e).__name__}", f"{tag}.h2_flow({tdesc}) raised {e!r}", rp)
            # Jacobian blocks of the flow with respect to the initial momentum (constrained systems only)
            if hasattr(system, "dh2_flow_dmom"):
                try:
                    blocks = system.dh2_flow_dmom(ChainState(pos=q.copy(), mom=p.copy(), dir=1), t)
                    got = [np.asarray(b @ np.eye(3), dtype=float) for b in blocks]     # (works for implicit-size matrices too)
                    for nm, g, w in (("dpos_dmom", got[0], _mat(rec["dpos_dmom"])), ("dmom_dmom", got[1], _mat(rec["dmom_dmom"]))):
                        n += 9
                        if g.shape != w.shape or not np.allclose(g, w, rtol=0, atol=1e-9 * max(1.0, float(np.max(np.abs(w))))):
                            add(f"C07:{tag}:dh2_flow_dmom:{nm}", f"{type(system).__name__} ({tag}).dh2_flow_dmom({tdesc}) reports {nm} = "
                                f"{np.round(g, 9).tolist()}; the Jacobian of the exact flow is {np.round(w, 9).tolist()}", rp)
                except Exception as e:  # noqa: BLE001
                    add(f"C07:{tag}:dh2_flow_dmom:exception:{type(e).__name__}", f"{tag}.dh2_flow_dmom({tdesc}) raised {e!r}", rp)
            # h1_flow
            if rec["h1"]["q"]:
                t1 = _r(rec["t1"])
                st = ChainState(pos=q.copy(), mom=p.copy(), dir=1)
                try:
                    system.h1_flow(st, t1)
                    wq, wp = _vec(rec["h1"]["q"]), _vec(rec["h1"]["p"])
                    n += 6
                    sc = max(1.0, float(np.max(np.abs(wp))))
                    if not (np.array_equal(st.pos, wq) and np.allclose(st.mom, wp, rtol=0, atol=1e-9 * sc)):
                        add(f"C07:{tag}:h1_flow", f"{type(system).__name__} ({tag}).h1_flow over time {t1} from q={q.tolist()}, p={p.tolist()} gives "
                            f"q={st.pos.tolist()}, p={np.round(st.mom, 9).tolist()}; exact: position unchanged, p={np.round(wp, 9).tolist()}", rp)
                except Exception as e:  # noqa: BLE001
                    add(f"C07:{tag}:h1_flow:exception:{type(e).__name__}", f"{tag}.h1_flow raised {e!r}", rp)
    return viol, n


def implicit_identity_checks():
    """The implicit-size identity metric (metric=None) is covered by the `identity` cases above (zoo systems are
    built with metric=None).  Here: flows on states of another dimension with the same system object."""
    return [], 0


def check_all(tier, name):
    cs = cases(tier)
    recs, stats = run_spec(cs, name)
    viol, n = check_against_real(recs)
    return {"viol": viol, "stats": stats, "values": n, "cases": cs, "recs": recs}
