"""Engine for specs/Integrators.tla + Trace_Integrators.tla (C02, C06 structural, step protocol of C04).

Part 1: TLC model-checks the derivation of symmetric composition coefficients over a grid of
        free coefficients; every enumerated scheme is instantiated as a real
        SymmetricCompositionIntegrator and its `coefficients` / `flows` compared exactly.
Part 2: real steps of every integrator on real systems are recorded through public extension
        points (instance-level wrappers of system flows, `fixed_point_solver`,
        `projection_solver`, `reverse_check_norm`) and validated by TLC against the documented
        programs, together with measured facts (manifold / cotangent flags, round trip, input
        untouched, first-order consistency).
"""

from __future__ import annotations

import inspect
import math

import numpy as np

from mbv import tlc, zoo
from mbv.tlc import MachineryError

U = 1_000_000

CFG1 = """SPECIFICATION Spec
CONSTANTS
  Grid <- GridDef
  MaxFree = {maxfree}
INVARIANT Palindromic
INVARIANT OddLength
INVARIANT Alternates
INVARIANT SumsToOne
INVARIANT LeapfrogIsSpecialCase
INVARIANT FixedProgramsConsistent
INVARIANT PrintCoefficients
CHECK_DEADLOCK FALSE
"""
GRID = [-62500, 62500, 125000, 187500, 312500]  # multiples of 1/16 (exact binary fractions)


def run_part1(tier, name):
    d = tlc.fresh_dir(name)
    tlc.stage_specs(d, ["Integrators.tla"])
    src = (d / "Integrators.tla").read_text().replace(
        "=============================================================================",
        "GridDef == {" + ", ".join(tlc.to_tla(g) for g in GRID) + "}\n"
        "=============================================================================")
    (d / "Integrators.tla").write_text(src)
    res = tlc.run_tlc(d, "Integrators", CFG1.format(maxfree=3 if tier == "quick" else 4), workers=4, timeout=600, cpus=4)
    if not res.ok:
        raise MachineryError(f"Integrators.tla violates its own invariant {res.violated}:\n{res.stdout[-2000:]}")
    return [r for r in res.printed if isinstance(r, dict) and "coefficients" in r], res


def check_part1(schemes):
    """Compare every enumerated scheme with the real class; returns (violations, drifts, n)."""
    import mici.integrators as I
    import mici.systems as S

    viol, drift = [], []
    system = S.EuclideanMetricSystem(lambda q: 0.5 * q @ q, grad_neg_log_dens=lambda q: q)
    n = 0
    for s in schemes:
        free = [f / U for f in s["free"]]
        n += 1
        integ = I.SymmetricCompositionIntegrator(system, free, step_size=0.5, initial_h1_flow_step=s["h1first"])
        got = [round(c * U) for c in integ.coefficients]
        exact = all(c * U == round(c * U) for c in integ.coefficients)
        names = [f.__name__ for f in integ.flows]
        want_names = [("h1_flow" if (i % 2 == 0) == s["h1first"] else "h2_flow") for i in range(len(got))]
        rp = {"engine": "integrators-composition", "free": free, "h1first": s["h1first"]}
        c = integ.coefficients
        pal = all(c[i] == c[-1 - i] for i in range(len(c)))
        sum_a = math.fsum(c[0::2])
        sum_b = math.fsum(c[1::2])
        if not pal or names[0] != names[-1] or any(names[i] == names[i + 1] for i in range(len(names) - 1)):
            viol.append(("C02", "C02:composition:not-palindromic", f"composition with free coefficients {free} is not a palindromic alternation: {c} {names}", rp))
            viol.append(("C06", "C06:composition:not-palindromic", f"composition with free coefficients {free} is not a palindromic alternation: {c} {names}", rp))
        if abs(sum_a - 1) > 1e-12 or abs(sum_b - 1) > 1e-12:
            viol.append(("C06", "C06:composition:weights-do-not-sum-to-one",
                         f"composition with free coefficients {free}: component weights sum to {sum_a} and {sum_b}", rp))
        if got != s["coefficients"] or not exact or names != want_names:
            drift.append(f"composition free={free} h1first={s['h1first']}: real coefficients {c} / flows {names} differ from Integrators.tla {s['coefficients']}")
    # the library's fixed schemes
    for cls in (I.BCSSTwoStageIntegrator, I.BCSSThreeStageIntegrator, I.BCSSFourStageIntegrator, I.LeapfrogIntegrator):
        n += 1
        integ = cls(system, 0.5)
        if cls is I.LeapfrogIntegrator:
            continue
        c = integ.coefficients
        rp = {"engine": "integrators-composition", "class": cls.__name__}
        if not all(c[i] == c[-1 - i] for i in range(len(c))):
            viol.append(("C02", f"C02:composition:{cls.__name__}:not-palindromic", f"{cls.__name__} coefficients {c} are not palindromic", rp))
        if abs(math.fsum(c[0::2]) - 1) > 1e-12 or abs(math.fsum(c[1::2]) - 1) > 1e-12:
            viol.append(("C06", f"C06:composition:{cls.__name__}:weights-do-not-sum-to-one",
                         f"{cls.__name__}: component weights sum to {math.fsum(c[0::2])} and {math.fsum(c[1::2])}", rp))
    return viol, drift, n


# --------------------------------------------------------------------------------------
# Part 2: recording real steps
# --------------------------------------------------------------------------------------
class StepRecorder:
    def __init__(self, model, system, step_size, direction):
        self.model, self.system, self.events, self.depth = model, system, [], 0
        self.unit = step_size * direction

    def frac(self, dt):
        return int(round(dt / self.unit * U))

    def flags(self, state):
        m = self.model
        out = {"man": True, "cot": True}
        if hasattr(self.system, "constr") and state is not None and getattr(state, "pos", None) is not None:
            c = m._c(np.asarray(state.pos))
            # the projection solvers return only when max|c| < constraint_tol (default 1e-9): the same criterion here
            out["man"] = bool(np.all(np.isfinite(c)) and np.max(np.abs(c)) < 1e-9)
            if state.mom is not None:
                j = m._jac(np.asarray(state.pos))
                v = j @ (self.system.metric.inv @ np.asarray(state.mom))
                out["cot"] = bool(np.all(np.isfinite(v)) and np.max(np.abs(v)) < 1e-7)
        return out

    def add(self, op, frac, state=None, ok=True):
        self.events.append({"op": op, "frac": frac, "ok": bool(ok), **self.flags(state)})


def instrument(system, integ, rec: StepRecorder):
    """Instance-level wrappers; nothing in mici is modified."""
    for name in ("h1_flow", "h2_flow"):
        if hasattr(system, name):
            bound = getattr(system, name)

            def w(state, dt, _b=bound, _n=name):
                if rec.depth > 0:
                    return _b(state, dt)
                rec.depth += 1
                try:
                    r = _b(state, dt)
                finally:
                    rec.depth -= 1
                rec.add(_n, rec.frac(dt), state)
                return r

            w.__name__ = name
            setattr(system, name, w)
    if hasattr(integ, "flows"):  # compositions bind the flow methods at construction
        def _named(f):
            return getattr(f, "__name__", None) or getattr(f, "_flow_name")
        integ.flows = [getattr(system, f.__name__) for f in integ.flows]
    if hasattr(system, "project_onto_cotangent_space"):
        bound = system.project_onto_cotangent_space

        def wp(mom, state, _b=bound):
            if rec.depth > 0:
                return _b(mom, state)
            rec.depth += 1
            try:
                r = _b(mom, state)
            finally:
                rec.depth -= 1
            # flags are measured on the projected momentum (the caller assigns it afterwards)
            from mici.states import ChainState
            probe = ChainState(pos=np.array(state.pos), mom=np.array(r), dir=1)
            rec.add("proj_mom", 0, probe)
            return r

        system.project_onto_cotangent_space = wp
        bound_d = system.dh1_dpos

        def wd(state, _b=bound_d):
            if rec.depth > 0:
                return _b(state)
            rec.depth += 1
            try:
                r = _b(state)
            finally:
                rec.depth -= 1
            rec.add("dh1_dpos", 0, None)
            return r

        system.dh1_dpos = wd
    if hasattr(integ, "fixed_point_solver"):
        solver = integ.fixed_point_solver

        def wf(func, x0, **kw):
            nl = inspect.getclosurevars(func).nonlocals
            dt = nl.get("time_step")
            rec.depth += 1
            try:
                r = solver(func, x0, **kw)
            except BaseException:
                rec.depth -= 1
                rec.add("fp", rec.frac(dt), None, ok=False)
                raise
            rec.depth -= 1
            rec.add("fp", rec.frac(dt), None)
            return r

        integ.fixed_point_solver = wf
    if hasattr(integ, "projection_solver"):
        psolver = integ.projection_solver

        def wps(state, state_prev, time_step, system_, **kw):
            rec.depth += 1
            try:
                r = psolver(state, state_prev, time_step, system_, **kw)
            except BaseException:
                rec.depth -= 1
                rec.add("proj_pos", rec.frac(time_step), state, ok=False)
                raise
            rec.depth -= 1
            rec.add("proj_pos", rec.frac(time_step), state)
            return r

        integ.projection_solver = wps
    if hasattr(integ, "reverse_check_norm"):
        norm = integ.reverse_check_norm
        tol = integ.reverse_check_tol

        def wn(v):
            val = norm(v)
            rec.add("rev", 0, None, ok=bool(val <= tol))
            return val

        integ.reverse_check_norm = wn


def scenario_list(tier):
    sc = []
    for kind in ("Euclidean", "Gaussian"):
        for metric in ("dense", "diag"):
            sc.append(dict(kind=kind, metric=metric, integ="leapfrog", N=1, free=[], h1first=True))
            sc.append(dict(kind=kind, metric=metric, integ="bcss2", N=1, free=[int(round((3 - 3**0.5) / 6 * U))], h1first=True))
            sc.append(dict(kind=kind, metric=metric, integ="composition", N=1, free=[125000, 312500], h1first=False))
        sc.append(dict(kind=kind, metric="dense", integ="bcss3", N=1, free=[118880, 296195], h1first=True))
        sc.append(dict(kind=kind, metric="dense", integ="bcss4", N=1, free=[71354, 191668, 268549], h1first=True))
        sc.append(dict(kind=kind, metric="dense", integ="composition", N=1, free=[62500], h1first=True))
        # isotropic metric handed over as a PositiveScaledIdentityMatrix (scalar != 1)
        sc.append(dict(kind=kind, metric="scaled", integ="leapfrog", N=1, free=[], h1first=True))
    for fl in zoo.RIEMANNIAN_FLAVOURS:
        sc.append(dict(kind="Riemannian", flavour=fl, integ="implicit_leapfrog", N=1, free=[], h1first=True))
    sc.append(dict(kind="SoftAbs", integ="implicit_leapfrog", N=1, free=[], h1first=True))
    sc.append(dict(kind="Riemannian", flavour="diag", integ="implicit_midpoint", N=1, free=[], h1first=True))
    sc.append(dict(kind="Riemannian", flavour="dense", integ="implicit_midpoint", N=1, free=[], h1first=True))
    sc.append(dict(kind="Euclidean", metric="dense", integ="implicit_midpoint", N=1, free=[], h1first=True))
    sc.append(dict(kind="Gaussian", metric="dense", integ="implicit_midpoint", N=1, free=[], h1first=True))
    sc.append(dict(kind="Gaussian", metric="diag", integ="implicit_leapfrog", N=1, free=[], h1first=True))
    sc.append(dict(kind="SoftAbs", integ="implicit_midpoint", N=1, free=[], h1first=True))
    sc.append(dict(kind="Euclidean", metric="dense", integ="implicit_leapfrog", N=1, free=[], h1first=True))
    for kind in ("Constrained", "ConstrainedHausdorff", "GaussianConstrained"):
        for solver in ("newton", "quasi_newton", "newton_line_search"):
            for N in (1, 2, 4):
                if tier == "quick" and N == 4 and solver != "newton":
                    continue
                for curved in (True, False):
                    if not curved and (N != 1 or solver != "newton"):
                        continue
                    sc.append(dict(kind=kind, metric="dense" if kind != "GaussianConstrained" else "diag",
                                   integ="constrained", solver=solver, N=N, free=[], h1first=True, curved=curved))
        sc.append(dict(kind=kind, metric="diag", integ="constrained", solver="newton", N=1, free=[], h1first=True,
                       curved=True, n=2))
    # very small steps: the unconstrained flow leaves the manifold by less than a loose tolerance, the projection still
    # has to bring the residual below the SOLVER's tolerance (the flags judge |c| against 1e-9, the solvers' default)
    for kind in ("Constrained", "GaussianConstrained"):
        for st_ in (1e-4, 3e-4, 1e-3):
            sc.append(dict(kind=kind, metric="dense" if kind != "GaussianConstrained" else "diag", integ="constrained", solver="newton",
                           N=2, free=[], h1first=True, curved=True, step=st_))
    # a step that must fail loudly: far too large step for the constrained / implicit integrators
    sc.append(dict(kind="Constrained", metric="dense", integ="constrained", solver="newton", N=1, free=[], h1first=True,
                   curved=True, step=5.0, expect_fail=True))
    sc.append(dict(kind="Riemannian", flavour="diag", integ="implicit_leapfrog", N=1, free=[], h1first=True,
                   step=3.0, expect_fail=True))
    return sc


def build(sc, step=None, direction=1):
    import mici.integrators as I
    import mici.solvers as S
    from mici.states import ChainState

    model = zoo.Model(sc.get("n", 3), curved=sc.get("curved", True))
    system = zoo.make_system(sc["kind"], model, metric=sc.get("metric", "dense"), flavour=sc.get("flavour", "diag"))
    ig = sc["integ"]
    default = {"leapfrog": 0.11, "bcss2": 0.11, "bcss3": 0.11, "bcss4": 0.11, "composition": 0.11,
               "implicit_leapfrog": 0.05, "implicit_midpoint": 0.05, "constrained": 0.06}[ig]
    step = step or sc.get("step") or default
    if ig == "leapfrog":
        integ = I.LeapfrogIntegrator(system, step)
    elif ig == "bcss2":
        integ = I.BCSSTwoStageIntegrator(system, step)
    elif ig == "bcss3":
        integ = I.BCSSThreeStageIntegrator(system, step)
    elif ig == "bcss4":
        integ = I.BCSSFourStageIntegrator(system, step)
    elif ig == "composition":
        integ = I.SymmetricCompositionIntegrator(system, [f / U for f in sc["free"]], step_size=step,
                                                 initial_h1_flow_step=sc["h1first"])
    elif ig == "implicit_leapfrog":
        integ = I.ImplicitLeapfrogIntegrator(system, step)
    elif ig == "implicit_midpoint":
        integ = I.ImplicitMidpointIntegrator(system, step)
    else:
        solver = {"newton": S.solve_projection_onto_manifold_newton,
                  "quasi_newton": S.solve_projection_onto_manifold_quasi_newton,
                  "newton_line_search": S.solve_projection_onto_manifold_newton_with_line_search}[sc["solver"]]
        integ = I.ConstrainedLeapfrogIntegrator(system, step, n_inner_step=sc["N"], projection_solver=solver)
    n = model.n
    if "Constrained" in sc["kind"]:
        pos = zoo.on_manifold_point(model, 3)
        st0 = ChainState(pos=pos, mom=None, dir=direction)
        mom = system.sample_momentum(st0, np.random.default_rng(5))
        state = ChainState(pos=pos, mom=np.array(mom), dir=direction)
    else:
        g = np.random.default_rng(11)
        state = ChainState(pos=g.standard_normal(n) * 0.5, mom=g.standard_normal(n) * 0.7, dir=direction)
    return model, system, integ, state


def record_step(sc, direction):
    """One real step with event recording, plus measured whole-step facts."""
    from mici.errors import ConvergenceError, NonReversibleStepError

    model, system, integ, state = build(sc, direction=direction)
    before = (np.array(state.pos), np.array(state.mom), state.dir)
    rec = StepRecorder(model, system, integ.step_size, direction)
    instrument(system, integ, rec)
    outcome, new = "ok", None
    try:
        new = integ.step(state)
    except NonReversibleStepError:
        outcome = "NonReversibleStepError"
    except ConvergenceError:
        outcome = "ConvergenceError"
    except BaseException as e:  # noqa: BLE001
        if isinstance(e, (KeyboardInterrupt, SystemExit)):
            raise
        outcome = f"foreign:{type(e).__name__}: {e}"
    tr = {"kind": {"bcss2": "composition", "bcss3": "composition", "bcss4": "composition"}.get(sc["integ"], sc["integ"]),
          "N": sc["N"], "free": sc["free"], "h1first": sc["h1first"], "ev": rec.events, "outcome": outcome,
          "input_untouched": bool(np.array_equal(state.pos, before[0]) and np.array_equal(state.mom, before[1]) and state.dir == before[2]),
          "final_man": True, "final_cot": True, "roundtrip_ok": True, "consistent_pos": True, "consistent_mom": True,
          "sampled_cot": True, "stress_ok": True, "stress_rev_ok": True}
    if "Constrained" in sc["kind"]:
        # every sampled momentum and every momentum projection lies in the cotangent space
        from mici.states import ChainState
        chk = StepRecorder(model, system, 1.0, 1)
        ok = True
        rec.depth += 1  # these probes are not part of the step: do not log them
        for seed in range(4):
            st = ChainState(pos=np.array(before[0]), mom=None, dir=1)
            m1 = system.sample_momentum(st, np.random.default_rng(100 + seed))
            ok &= chk.flags(ChainState(pos=np.array(before[0]), mom=np.array(m1), dir=1))["cot"]
            m2 = system.project_onto_cotangent_space(np.random.default_rng(seed).standard_normal(model.n), st)
            ok &= chk.flags(ChainState(pos=np.array(before[0]), mom=np.array(m2), dir=1))["cot"]
        tr["sampled_cot"] = bool(ok)
    if new is not None:
        fl = rec.flags(new)
        tr["final_man"], tr["final_cot"] = fl["man"], fl["cot"]
    return tr


def measure_roundtrip(sc, n=3, metric_history=False):
    """n steps, flip direction, n steps on an un-instrumented integrator; returns (ok, err) or None on error.

    metric_history: the system and integrator were used before with another metric -- two steps, then the
    system's metric is reassigned (what the metric adapters do between stages) -- and the round trip is made
    with the new metric: nothing remembered from the earlier steps may enter it."""
    from mici.errors import IntegratorError
    from mici.states import ChainState

    model, system, integ, state = build(sc)
    if metric_history:
        state = _warm_and_reassign_metric(sc, model, system, integ, state)
    s = state
    try:
        for _ in range(n):
            s = integ.step(s)
        s = s.copy()
        s.dir = -s.dir
        for _ in range(n):
            s = integ.step(s)
    except IntegratorError:
        return None
    err = max(float(np.max(np.abs(s.pos - state.pos))), float(np.max(np.abs(s.mom - state.mom))))
    tol = 1e-9 if sc["integ"] in ("leapfrog", "bcss2", "bcss3", "bcss4", "composition") else 5e-6
    return err <= tol, err


def _warm_and_reassign_metric(sc, model, system, integ, state):
    """Two earlier steps in the direction of the state, then `system.metric` is reassigned (what the metric
    adapters do between stages).  Returns the state to continue from (momentum redrawn in the cotangent space
    of the new metric for constrained systems)."""
    from mbv import matzoo
    from mici.errors import IntegratorError
    from mici.states import ChainState

    try:
        integ.step(integ.step(state))
    except IntegratorError:
        pass
    system.metric = matzoo.pos_def_metrics(model.n)["dense" if sc.get("metric") == "diag" else "diag"][0]
    if "Constrained" in sc["kind"]:
        mom = system.sample_momentum(ChainState(pos=np.array(state.pos), mom=None, dir=1), np.random.default_rng(6))
        return ChainState(pos=np.array(state.pos), mom=np.array(mom), dir=state.dir)
    return state


def _fd_grad_h(system, pos, mom, delta=1e-5):
    """Central finite differences of the system's OWN Hamiltonian system.h (independent of its derivative
    methods): returns (dh/dq, dh/dp)."""
    from mici.states import ChainState

    def h(q, p_):
        return float(system.h(ChainState(pos=np.array(q), mom=np.array(p_), dir=1)))

    n = len(pos)
    gq, gp = np.zeros(n), np.zeros(n)
    for i in range(n):
        e = np.zeros(n)
        e[i] = delta
        gq[i] = (h(pos + e, mom) - h(pos - e, mom)) / (2 * delta)
        gp[i] = (h(pos, mom + e) - h(pos, mom - e)) / (2 * delta)
    return gq, gp


def measure_consistency(sc, metric_history=False):
    """(q1 - q0)/eps vs dH/dp and (p1 - p0)/eps vs -dH/dq at the initial state for a tiny step, H being the
    system's own Hamiltonian `system.h`, differentiated numerically.  For constrained systems the momentum
    equation holds up to a constraint force J^T lambda, so the residual is compared after projecting out the
    row space of the constraint Jacobian."""
    from mici.errors import IntegratorError

    eps = 1e-5
    model, system, integ, state = build(sc, step=eps)
    if metric_history:
        state = _warm_and_reassign_metric(sc, model, system, integ, state)
    try:
        new = integ.step(state)
    except IntegratorError:
        return None
    vq = state.dir * (new.pos - state.pos) / eps
    vp = state.dir * (new.mom - state.mom) / eps
    gq, gp = _fd_grad_h(system, np.array(state.pos), np.array(state.mom))
    dq, dp = gp, -gq
    res_p = vp - dp
    if "Constrained" in sc["kind"]:
        j = model._jac(np.array(state.pos))
        res_p = res_p - j.T @ np.linalg.solve(j @ j.T, j @ res_p)
    scale_q = max(1.0, float(np.max(np.abs(dq))))
    ok_q = float(np.max(np.abs(vq - dq))) <= 2e-3 * scale_q
    ok_p = float(np.max(np.abs(res_p))) <= 2e-3 * max(1.0, float(np.max(np.abs(dp))))
    ratio = float(vq @ dq / (dq @ dq)) if float(dq @ dq) > 0 else float("nan")
    return ok_q, ok_p, ratio


def stress_roundtrips(sc, n_trials):
    """Round trips from hard states (large momenta / large steps, where implicit equations have several
    solutions): every step that RETURNS must be undone by flip + step, otherwise an IntegratorError must
    have been raised.  Returns (ok, n_returned, worst_error)."""
    import mici.integrators as I
    import mici.solvers as S
    from mici.errors import IntegratorError
    from mici.states import ChainState

    rng = np.random.default_rng(17)
    worst, returned, rev_raised, nbad = 0.0, 0, 0, 0
    for t in range(n_trials):
        if sc["integ"] == "constrained":
            model = zoo.Model(2, curved="wavy")
            system = zoo.make_system(sc["kind"], model, metric="diag")
            step = float(rng.choice([0.3, 0.6, 1.0]))
            solver = {"newton": S.solve_projection_onto_manifold_newton,
                      "quasi_newton": S.solve_projection_onto_manifold_quasi_newton,
                      "newton_line_search": S.solve_projection_onto_manifold_newton_with_line_search}[sc["solver"]]
            integ = I.ConstrainedLeapfrogIntegrator(system, step, n_inner_step=sc["N"], projection_solver=solver)
            q0 = rng.uniform(-1.5, 1.5)
            pos = np.array([q0, np.sin(3 * q0)])
            st0 = ChainState(pos=pos, mom=None, dir=1)
            mom = system.project_onto_cotangent_space(rng.standard_normal(2) * rng.choice([1.0, 3.0]), st0)
        else:
            # two families: large momenta near the origin, and long steps from anywhere (where the direct
            # fixed-point iteration of the implicit sub-steps may cycle instead of converging)
            wide = t % 4 >= 2
            dim = 2 if (wide and t % 8 >= 6) else 3
            model = zoo.Model(dim)
            system = zoo.make_system(sc["kind"], model, flavour=sc.get("flavour", "diag"))
            step = float(rng.choice([0.5, 0.6, 0.8, 1.2, 1.5, 1.8] if wide else [0.25, 0.35, 0.5]))
            fps = S.solve_fixed_point_direct if t % 2 == 0 else S.solve_fixed_point_steffensen
            cls = I.ImplicitLeapfrogIntegrator if sc["integ"] == "implicit_leapfrog" else I.ImplicitMidpointIntegrator
            integ = cls(system, step, fixed_point_solver=fps)
            pos = rng.uniform(-1.5, 1.5, dim) if wide else rng.uniform(-0.3, 0.3, dim)
            mom = rng.standard_normal(dim) * (rng.uniform(1.0, 10.0) if wide else rng.uniform(3.0, 10.0))
        state = ChainState(pos=np.array(pos), mom=np.array(mom), dir=int(rng.choice([1, -1])))
        try:
            s1 = integ.step(state)
        except IntegratorError:
            continue
        except Exception:  # noqa: BLE001  (a foreign exception is judged by the step traces)
            continue
        try:
            s1 = s1.copy()
            s1.dir = -s1.dir
            s2 = integ.step(s1)
        except IntegratorError:
            rev_raised += 1     # the step returned a state, yet integrating back from it fails (loudly)
            continue
        except Exception:  # noqa: BLE001
            continue
        returned += 1
        err = max(float(np.max(np.abs(s2.pos - state.pos))), float(np.max(np.abs(s2.mom - state.mom))))
        rel = err / max(1.0, float(np.max(np.abs(state.mom))))
        nbad += rel > 1e-5
        worst = max(worst, rel)
    return worst <= 1e-5, returned, worst, rev_raised, int(nbad)


TRACE_CFG = """SPECIFICATION TraceSpec
CONSTANTS
  Grid <- GridDef
  MaxFree = 0
INVARIANT FollowsProgram
INVARIANT TimeBudget
INVARIANT ReverseChecked
INVARIANT StaysOnManifold
INVARIANT RoundTrip
INVARIANT ReverseReturns
INVARIANT InputUntouched
INVARIANT Consistent
CHECK_DEADLOCK FALSE
"""
INVS = ["FollowsProgram", "TimeBudget", "ReverseChecked", "StaysOnManifold", "RoundTrip", "ReverseReturns", "InputUntouched", "Consistent"]


def reverse_solve_faults(tier):
    """The implicit sub-steps guarantee reversibility by solving the sub-step backwards from its result and comparing
    with where it started.  Script the backward solves (fixed_point_solver is a public argument): the j-th backward
    solve of a step returns a point that is NOT the starting point (a different root); a step that returns a state
    although the comparison must have failed did not check what it claims to check.  Returns (violations, runs)."""
    import inspect

    import mici.integrators as I
    import mici.solvers as S
    from mici.errors import IntegratorError
    from mici.states import ChainState

    viol, runs = [], 0
    for integ_name, cls in (("implicit_leapfrog", I.ImplicitLeapfrogIntegrator), ("implicit_midpoint", I.ImplicitMidpointIntegrator)):
        for flavour in ("diag", "softabs") if tier != "quick" else ("diag",):
            for direction in (1, -1):
                model = zoo.Model(3)
                try:
                    system = zoo.make_system("Riemannian", model, flavour=flavour)
                except Exception:  # noqa: BLE001
                    continue
                pos = np.array([0.2, -0.1, 0.15])
                st0 = ChainState(pos=pos.copy(), mom=None, dir=direction)
                mom = system.sample_momentum(st0, np.random.default_rng(3))

                def run(fault_at):
                    calls = {"back": 0, "all": 0}

                    def solver(func, x0, **kw):
                        r = S.solve_fixed_point_direct(func, x0, **kw)
                        dt = inspect.getclosurevars(func).nonlocals.get("time_step")
                        calls["all"] += 1
                        if dt is not None and np.sign(dt) != np.sign(direction * 0.05):
                            calls["back"] += 1
                            if calls["back"] == fault_at:
                                r = np.asarray(r) + 1e-3     # another "root": far beyond reverse_check_tol (2e-8)
                                func(r)                      # (the closure also writes the iterate into the state)
                        return r

                    integ = cls(system, 0.05, fixed_point_solver=solver)
                    state = ChainState(pos=pos.copy(), mom=mom.copy(), dir=direction)
                    try:
                        integ.step(state)
                        return "returned", calls
                    except IntegratorError as e:
                        return type(e).__name__, calls
                    except Exception as e:  # noqa: BLE001
                        return "foreign:" + type(e).__name__, calls

                outcome, calls = run(0)
                nback = calls["back"]
                if outcome != "returned" or nback == 0:
                    continue
                for j in range(1, nback + 1):
                    runs += 1
                    outcome, _ = run(j)
                    if outcome == "returned":
                        viol.append(("C02", f"C02:{integ_name}:reverse-check-accepts-different-root:backward-solve-{j}",
                                     f"{integ_name} on a Riemannian ({flavour}) system, direction {direction}: the backward solve #{j} of the "
                                     f"step (of {nback}) was made to return a point 1e-3 away from where the sub-step started, yet the step "
                                     f"returned a state instead of raising NonReversibleStepError",
                                     {"engine": "integrators-revfault", "integ": integ_name, "flavour": flavour, "direction": direction, "j": j}))
    return viol, runs


def validate(traces, name):
    """Evaluate every acceptance invariant separately for every trace with TLC.
    Returns list of (trace index, invariant) failures and the number of states."""
    d = tlc.fresh_dir(name)
    tlc.stage_specs(d, ["Integrators.tla", "Trace_Integrators.tla"])
    src = (d / "Integrators.tla").read_text().replace(
        "=============================================================================",
        "GridDef == {0}\n=============================================================================")
    (d / "Integrators.tla").write_text(src)

    def ev_tla(e):
        return "[op |-> %s, frac |-> %s, ok |-> %s, man |-> %s, cot |-> %s]" % (
            tlc.tla_str(e["op"]), tlc.to_tla(e["frac"]), tlc.to_tla(e["ok"]), tlc.to_tla(e["man"]), tlc.to_tla(e["cot"]))

    def tr_tla(t):
        return ("[kind |-> %s, N |-> %d, free |-> %s, h1first |-> %s, ev |-> <<%s>>, outcome |-> %s, input_untouched |-> %s, "
                "final_man |-> %s, final_cot |-> %s, roundtrip_ok |-> %s, consistent_pos |-> %s, consistent_mom |-> %s, sampled_cot |-> %s, "
                "stress_ok |-> %s, stress_rev_ok |-> %s]") % (
            tlc.tla_str(t["kind"]), t["N"], tlc.to_tla(t["free"]) if t["free"] else "<<>>", tlc.to_tla(t["h1first"]),
            ", ".join(ev_tla(e) for e in t["ev"]), tlc.tla_str(t["outcome"].split(":")[0]), tlc.to_tla(t["input_untouched"]),
            tlc.to_tla(t["final_man"]), tlc.to_tla(t["final_cot"]), tlc.to_tla(t["roundtrip_ok"]),
            tlc.to_tla(t["consistent_pos"]), tlc.to_tla(t["consistent_mom"]), tlc.to_tla(t["sampled_cot"]),
            tlc.to_tla(t["stress_ok"]), tlc.to_tla(t["stress_rev_ok"]))

    (d / "TraceDataInt.tla").write_text("---- MODULE TraceDataInt ----\nEXTENDS Integers\nTraces == <<\n "
                                        + ",\n ".join(tr_tla(t) for t in traces) + "\n>>\n====\n")
    cfg = TRACE_CFG.split("INVARIANT")[0] + "INVARIANT Verdict\nCHECK_DEADLOCK FALSE\n"
    res = tlc.run_tlc(d, "Trace_Integrators", cfg, workers=2, timeout=600, cpus=2)
    if not res.ok:
        raise MachineryError(f"Trace_Integrators run failed: {res.violated}\n{res.stdout[-2000:]}")
    failures, states, seen = [], res.distinct, set()
    for r in res.printed:
        if isinstance(r, dict) and "q" in r:
            seen.add(r["q"])
            for inv in INVS:
                if not r[inv]:
                    failures.append((r["q"] - 1, inv))
    if seen != set(range(1, len(traces) + 1)):
        raise MachineryError("Trace_Integrators did not judge every trace")
    return failures, states


OWNER = {"TimeBudget": "C06", "Consistent": "C06", "ReverseChecked": "C02", "RoundTrip": "C02", "ReverseReturns": "C02",
         "InputUntouched": "C02", "StaysOnManifold": "C04"}


def _scname(sc):
    return "/".join(str(sc[k]) for k in ("kind", "flavour", "metric", "integ", "solver") if sc.get(k)) + f"/N={sc['N']}" + (
        f"/free={sc['free']}" if sc["free"] else "") + ("/linear" if sc.get("curved") is False else "")


def run_traces(tier, name):
    """Record + measure + validate; returns dict(traces, failures [(owner, sig, what, replay)], states)."""
    traces = []
    for sc in scenario_list(tier):
        for direction in (1, -1):
            tr = record_step(sc, direction)
            rt = measure_roundtrip(sc)
            cs = measure_consistency(sc)
            if rt is not None:
                tr["roundtrip_ok"], tr["rt_err"] = rt
            if sc.get("metric") and not sc.get("expect_fail"):
                rt2 = measure_roundtrip(sc, metric_history=True)
                if rt2 is not None and not rt2[0]:
                    tr["roundtrip_ok"], tr["rt_err"] = False, f"{rt2[1]} (after two earlier steps and a reassignment of system.metric)"
            if cs is not None:
                tr["consistent_pos"], tr["consistent_mom"], tr["ratio"] = cs
            if sc.get("metric") and not sc.get("expect_fail"):
                cs2 = measure_consistency(sc, metric_history=True)
                if cs2 is not None and not (cs2[0] and cs2[1]):
                    tr["consistent_pos"], tr["consistent_mom"] = cs2[0], cs2[1]
                    tr["ratio"] = f"{cs2[2]} (after two earlier steps and a reassignment of system.metric)"
            tr["sc"], tr["direction"] = sc, direction
            if direction == 1 and not sc.get("expect_fail") and (
                    (sc["integ"] in ("implicit_leapfrog", "implicit_midpoint") and sc["kind"] in ("Riemannian", "SoftAbs")
                     and sc.get("flavour", "diag") in ("diag", "scalar", "-"))
                    or (sc["integ"] == "constrained" and sc["kind"] == "Constrained" and sc.get("curved", True))):
                ok, nret, worst, nrev, nbad = stress_roundtrips(sc, 600 if tier == "quick" else 4000)
                tr["stress_ok"], tr["stress_worst"], tr["stress_returned"], tr["stress_bad"] = ok, worst, nret, nbad
                tr["stress_rev_ok"], tr["stress_rev_raised"] = nrev == 0, nrev
            traces.append(tr)
    fails, states = validate(traces, name)
    by_trace = {}
    for i, inv in fails:
        by_trace.setdefault(i, set()).add(inv)
    out = []
    for i, invs in by_trace.items():
        tr = traces[i]
        sc = tr["sc"]
        evs = [(e["op"], e["frac"]) for e in tr["ev"]]
        rp = {"engine": "integrators-trace", "scenario": sc, "direction": tr["direction"]}
        for inv in sorted(invs):
            if inv == "FollowsProgram":
                owner = "C06" if ({"TimeBudget", "Consistent"} & invs) else "C02"
            else:
                owner = OWNER[inv]
            detail = {"FollowsProgram": f"sub-step events {evs} do not spell out the documented composition",
                      "TimeBudget": f"component time budgets differ from one step size (events {evs})",
                      "Consistent": f"over a step of size eps the {'position' if not tr['consistent_pos'] else 'momentum'} does not move by eps times the "
                                    f"derivative of the system's own Hamiltonian system.h (position displacement ratio {tr.get('ratio')}, must be 1)",
                      "ReverseChecked": f"reverse-check protocol violated (outcome {tr['outcome']}, events {[(e['op'], e['ok']) for e in tr['ev']]})",
                      "RoundTrip": f"n steps, flip, n steps misses the start by {tr.get('rt_err')}; hard-state round trips: "
                                   f"{tr.get('stress_returned')} returned, {tr.get('stress_bad')} missed the start, worst relative miss {tr.get('stress_worst')} (a returned step that is not undone by flip + step must raise an IntegratorError instead)",
                      "ReverseReturns": f"hard-state round trips: {tr.get('stress_rev_raised')} steps returned a state from which integrating back "
                                        f"(flip + step) raised an IntegratorError -- a step that cannot be undone has to raise itself",
                      "InputUntouched": "the input state object was modified by step()",
                      "StaysOnManifold": f"state left the manifold / cotangent space (events {[(e['op'], e['man'], e['cot']) for e in tr['ev']]}, "
                                         f"final {tr['final_man']}/{tr['final_cot']}, sampled momenta in cotangent space: {tr['sampled_cot']})"}[inv]
            cfg_tag = sc["integ"] + (f"[{sc['solver']}]" if sc.get("solver") else "")
            nret = max(1, tr.get("stress_returned", 1) + tr.get("stress_rev_raised", 0))
            if inv == "ReverseReturns":
                # (how often: an occasional failure at the edge of a Newton basin is a different finding from a
                #  reverse check that lets a whole class of steps through)
                sig = f"{owner}:{cfg_tag}:ReverseReturns:{'rare' if tr['stress_rev_raised'] <= 0.05 * nret else 'frequent'}"
            elif inv == "RoundTrip" and tr.get("roundtrip_ok", True) and not tr.get("stress_ok", True):
                sig = f"{owner}:{cfg_tag}:RoundTrip:hard-states:{'rare' if tr.get('stress_bad', 0) <= 0.002 * nret else 'frequent'}"
            else:
                sig = f"{owner}:{sc['integ']}:{inv}"
            out.append((owner, sig, f"{_scname(sc)} (dir {tr['direction']}): {detail}", rp))
    return {"traces": traces, "failures": out, "states": states}


# --------------------------------------------------------------------------------------
# Part 3: exact discrete dynamics on Z_P x Z_P (FiniteFlow.tla), replayed into the real
#         explicit integrators on a mock TractableFlowSystem
# --------------------------------------------------------------------------------------
FF_CFG = """SPECIFICATION Spec
CONSTANTS
  P = {p}
  G <- GDef
  Coeffs <- CoeffsDef
  DEN = {den}
  H1First = {h1first}
  MaxN = {maxn}
INVARIANT Reversible
INVARIANT Bijective
INVARIANT DirKept
INVARIANT Palindromic
INVARIANT PrintStep
CHECK_DEADLOCK FALSE
"""


class FiniteFlowSystem:
    """h1_flow / h2_flow over Z_p: the float time step is mapped back to its exact fraction k/den of the step."""

    def __init__(self, p, g, den, step):
        self.p, self.g, self.den, self.step = p, g, den, step
        self.invden = pow(den % p, p - 2, p)
        self.calls = []

    def _t(self, dt):
        k = dt / self.step * self.den
        kr = round(k)
        if abs(k - kr) > 1e-9:
            raise MachineryError(f"time step {dt} is not a multiple of step/{self.den}")
        return (kr * self.invden) % self.p

    def h1_flow(self, state, dt):
        t = self._t(dt)
        self.calls.append(("h1", dt))
        state.mom = np.array([(int(state.mom[0]) - t * self.g[int(state.pos[0])]) % self.p])

    def h2_flow(self, state, dt):
        t = self._t(dt)
        self.calls.append(("h2", dt))
        state.pos = np.array([(int(state.pos[0]) + t * int(state.mom[0])) % self.p])


def finite_flow_cases(tier):
    import random

    rnd = random.Random(7)
    cases = []
    for p in ((5, 7) if tier == "quick" else (5, 7, 11, 13)):
        g = [rnd.randrange(p) for _ in range(p)]
        cases.append(dict(p=p, g=g, free=[], h1first=True, kind="leapfrog"))
        cases.append(dict(p=p, g=g, free=[2], h1first=True, kind="composition"))        # free coefficient 2/16
        cases.append(dict(p=p, g=g, free=[3, 5], h1first=False, kind="composition"))
        if tier == "thorough":
            cases.append(dict(p=p, g=g, free=[1, 2, 3], h1first=True, kind="composition"))
    return cases


def run_finite_flow(tier, name):
    """Returns (violations, drifts, states, replayed)."""
    import mici.integrators as I
    from mici.states import ChainState

    viol, drift, states, replayed = [], [], 0, 0
    den = 16
    for ci, c in enumerate(finite_flow_cases(tier)):
        n = len(c["free"])
        free = list(c["free"])
        c1 = den // 2 - sum(free[n % 2::2])
        c2 = den - 2 * sum(free[(n + 1) % 2::2])
        half = free + [c1, c2]
        coeffs = half + half[-2::-1]
        d = tlc.fresh_dir(f"{name}_{ci}")
        tlc.stage_specs(d, ["FiniteFlow.tla"])
        src = (d / "FiniteFlow.tla").read_text().replace(
            "=============================================================================",
            f"GDef == {tlc.to_tla(c['g'])}\nCoeffsDef == {tlc.to_tla(coeffs)}\n"
            "=============================================================================")
        (d / "FiniteFlow.tla").write_text(src)
        res = tlc.run_tlc(d, "FiniteFlow", FF_CFG.format(p=c["p"], den=den, h1first=tlc.to_tla(c["h1first"]),
                                                          maxn=3 if tier == "quick" else 4),
                          workers=2, timeout=600, cpus=2, stack="64m")
        if not res.ok:
            raise MachineryError(f"FiniteFlow.tla violates its own invariant {res.violated}: {c}\n{res.stdout[-1500:]}")
        states += res.distinct
        step = 0.25
        for r in res.printed:
            if not (isinstance(r, dict) and "next" in r):
                continue
            s0, s1 = r["s"], r["next"]
            system = FiniteFlowSystem(c["p"], c["g"], den, step)
            if c["kind"] == "leapfrog":
                integ = I.LeapfrogIntegrator(system, step)
            else:
                integ = I.SymmetricCompositionIntegrator(system, [f / den for f in c["free"]], step_size=step,
                                                         initial_h1_flow_step=c["h1first"])
            state = ChainState(pos=np.array([s0["pos"]]), mom=np.array([s0["mom"]]), dir=s0["dir"])
            new = integ.step(state)
            replayed += 1
            got = {"pos": int(new.pos[0]), "mom": int(new.mom[0]), "dir": int(new.dir)}
            rp = {"engine": "finite-flow", "case": c, "state": s0}
            if (int(state.pos[0]), int(state.mom[0]), int(state.dir)) != (s0["pos"], s0["mom"], s0["dir"]):
                viol.append(("C02", f"C02:{c['kind']}:input-state-modified", f"{c['kind']} step modified its input state {s0}", rp))
            # decisive: n steps, flip, n steps returns exactly (finite field: no tolerance)
            back = new.copy()
            back.dir = -back.dir
            back = integ.step(back)
            if (int(back.pos[0]), int(back.mom[0])) != (s0["pos"], s0["mom"]):
                viol.append(("C02", f"C02:{c['kind']}:finite-field-round-trip",
                             f"{c['kind']} (free coefficients {c['free']}/16, Z_{c['p']}): step, flip, step from {s0} ends at "
                             f"({int(back.pos[0])}, {int(back.mom[0])})", rp))
            if got != s1:
                drift.append(f"finite flow {c['kind']} free={c['free']} p={c['p']}: real step from {s0} gives {got}, FiniteFlow.tla {s1}")
    return viol, drift, states, replayed
