"""Engine for specs/LogWeights.tla (C20).

Part A (decided by the specification): TLC enumerates every program  load, load, op, op(, op)  over the exact
dyadic weight model with a symbolic base exponent; each program is executed on real LogRepFloat objects for a list
of base exponents spanning the double range and the log-values / comparisons / mixed results are compared with the
exact values exported by TLC.

Part B (numerical supplement, NOT decided by the specification): the four helper functions and the binary
operators on arbitrary (non-dyadic) log-values against 60-digit decimal arithmetic evaluated on the exact float
inputs, including arguments extremely close to 0 from below, both sides of every branch point, and long in-place
accumulations.
"""

from __future__ import annotations

import itertools
import math
import random
from concurrent.futures import ThreadPoolExecutor
from decimal import Decimal, getcontext, localcontext
from fractions import Fraction

from mbv import tlc
from mbv.tlc import MachineryError

LN2 = math.log(2.0)
EPS = 2.0 ** -52

# name -> (n, d, c, k): the value n/d * 2^(c*B + k)
LEAVES = {
    "Z": (0, 1, 0, 0),
    "A": (1, 1, 1, 0),
    "T": (3, 1, 1, 0),
    "F": (5, 1, 1, -3),
    "D": (1, 1, 1, 1),
    "E": (1, 1, 1, -100),
    "U": (1, 1, 0, 0),
    "W": (3, 1, 0, -1),
}
PLAINS = {"p0": (0, 1, 0, 0), "p1": (1, 1, 0, 0), "p3": (3, 1, 0, 0), "ph": (1, 1, 0, -1), "pt": (1, 1, 0, -100)}
# base exponents B (log-value of leaf A = B ln 2)
BASES_QUICK = [0, 7, -40, 1000, -1000, 1100, -1100, 10 ** 6, -(10 ** 300)]
BASES_THOROUGH = BASES_QUICK + [1, -1, 60, -1074, -1080, 1023, 1024, 1025, 3000, -20000, 10 ** 12, 10 ** 300, -(10 ** 15)]

CFG = """SPECIFICATION Spec
CONSTANTS
  MaxOps = {maxops}
  AlignGap = 12
  NegGap = 80
  MaxMant = 64
  MixedUpTo = {mixed}
  FirstLeaves = {{{first}}}
  LeafTable <- LeafTableDef
  PlainTable <- PlainTableDef
INVARIANT ValuesCanonical
INVARIANT PristineMeansLeaf
INVARIANT PrintLeaf
CHECK_DEADLOCK FALSE
"""


def _rec(v):
    return f"[n |-> {v[0]}, d |-> {v[1]}, c |-> {v[2]}, k |-> {v[3]}]"


def _table(t):
    return " @@ ".join(f'("{k}" :> {_rec(v)})' for k, v in t.items())


def _stage(name, leaves):
    d = tlc.fresh_dir(name)
    tlc.stage_specs(d, ["LogWeights.tla"])
    src = (d / "LogWeights.tla").read_text().replace(
        "=============================================================================",
        f"LeafTableDef == {_table({k: LEAVES[k] for k in leaves})}\nPlainTableDef == {_table(PLAINS)}\n"
        "=============================================================================")
    (d / "LogWeights.tla").write_text(src)
    return d


def run_spec(tier, name):
    """Returns (programs, stats)."""
    q = tier == "quick"
    leaves = list(LEAVES)
    jobs = [dict(maxops=2, mixed=1, first=[l], leaves=leaves, sim=None) for l in leaves]
    if not q:
        core = ["Z", "A", "F"]
        jobs += [dict(maxops=3, mixed=0, first=[l], leaves=core, sim=None, deep=True) for l in core]
        jobs += [dict(maxops=6, mixed=0, first=leaves, leaves=leaves, sim=(4000, 11 + i), deep=True) for i in range(4)]

    def one(a):
        i, j = a
        d = _stage(f"{name}_{i}", j["leaves"])
        cfg = CFG.format(maxops=j["maxops"], mixed=j["mixed"], first=", ".join(f'"{x}"' for x in j["first"]))
        if j["sim"]:
            return tlc.run_tlc(d, "LogWeights", cfg, workers=1, timeout=1500, cpus=1, heap="2g",
                               simulate=f"num={j['sim'][0]}", depth=8, seed=j["sim"][1])
        return tlc.run_tlc(d, "LogWeights", cfg, workers=2, timeout=1500, cpus=2, heap="3g")

    with ThreadPoolExecutor(max_workers=8) as ex:
        results = list(ex.map(one, enumerate(jobs)))
    progs, gen, dist, seen = [], 0, 0, set()
    for j, res in zip(jobs, results):
        if not res.ok:
            raise MachineryError(f"LogWeights.tla failed ({j}): {res.violated}\n{res.stdout[-2000:]}")
        gen += res.generated
        dist += res.distinct
        for r in res.printed:
            if isinstance(r, dict) and "loads" in r:
                key = (tuple(r["loads"]), tuple((o["op"], o["a"], str(o["b"])) for o in r["ops"]))
                if key in seen:
                    continue
                seen.add(key)
                r["deep"] = bool(j.get("deep"))
                progs.append(r)
    if not progs:
        raise MachineryError("LogWeights.tla exported no program")
    # vacuity guard: every action of the specification was taken, zero differences and negligible addends occurred
    kinds = {o["op"] for p in progs for o in p["ops"]}
    if kinds != {"add", "sub", "mul", "div", "iadd", "iaddp"}:
        raise MachineryError(f"LogWeights.tla: actions never taken: {sorted({'add', 'sub', 'mul', 'div', 'iadd', 'iaddp'} - kinds)}")
    if not any(p["ops"] and p["ops"][-1]["op"] == "sub" and p["regs"][2] and p["regs"][2][0] == 0 and p["regs"][o_a(p) - 1][0] for p in progs):
        raise MachineryError("LogWeights.tla: no program with a zero difference of equal non-zero weights")
    if not any(p["negdiffs"] for p in progs) or not any(p["mixed"] for p in progs):
        raise MachineryError("LogWeights.tla: no smaller-first difference / mixed operator exported")
    return progs, {"generated": gen, "distinct": dist}


def o_a(p):
    return p["ops"][-1]["a"]


# ---- exact value -> expected float --------------------------------------------------------------
def exp_log(v, B):
    """log of n/d * 2^(c*B + k) as a float (-inf for zero)."""
    n, d, c, k = v
    if n == 0:
        return -math.inf
    return float(c * B + k) * LN2 + math.log(n / d)


def _plain(v):
    n, d, c, k = v
    return 0.0 if n == 0 else math.ldexp(n / d, k)


def _exec(prog, B, LogRepFloat):
    """Run the program on real objects; returns (registers, description)."""
    regs = {1: LogRepFloat(log_val=exp_log(LEAVES[prog["loads"][0]], B)),
            2: LogRepFloat(log_val=exp_log(LEAVES[prog["loads"][1]], B)), 3: None}
    for o in prog["ops"]:
        a, b = o["a"], o["b"]
        if o["op"] == "add":
            regs[3] = regs[a] + regs[b]
        elif o["op"] == "sub":
            regs[3] = regs[a] - regs[b]
        elif o["op"] == "mul":
            regs[3] = regs[a] * regs[b]
        elif o["op"] == "div":
            regs[3] = regs[a] / regs[b]
        elif o["op"] == "iadd":
            x = regs[a]
            x += regs[b]
            regs[a] = x
        elif o["op"] == "iaddp":
            x = regs[a]
            x += _plain(PLAINS[b])
            regs[a] = x
        else:
            raise MachineryError(f"unknown op {o}")
    return regs


def describe(prog, B):
    s = [f"r1 = LogRepFloat(log_val=log({_vs(LEAVES[prog['loads'][0]])}))", f"r2 = LogRepFloat(log_val=log({_vs(LEAVES[prog['loads'][1]])}))"]
    sym = {"add": "+", "sub": "-", "mul": "*", "div": "/"}
    for o in prog["ops"]:
        if o["op"] in sym:
            s.append(f"r3 = r{o['a']} {sym[o['op']]} r{o['b']}")
        elif o["op"] == "iadd":
            s.append(f"r{o['a']} += r{o['b']}")
        else:
            s.append(f"r{o['a']} += {_plain(PLAINS[o['b']])!r}")
    return f"B = {_bs(B)}: " + "; ".join(s)


def _bs(B):
    """short text for a base exponent"""
    if abs(B) < 10 ** 7:
        return str(B)
    e = len(str(abs(B))) - 1
    return f"{'-' if B < 0 else ''}{str(abs(B))[0]}e{e}" if abs(B) == int(str(abs(B))[0]) * 10 ** e else str(B)


def _vs(v):
    n, d, c, k = v
    if n == 0:
        return "0"
    return f"{n}{'/' + str(d) if d != 1 else ''}*2^({c}B{k:+d})"


def _mag_class(B):
    x = abs(B) * LN2
    if x < 700:
        return "moderate"
    return ("overflow" if B > 0 else "underflow") + ("-extreme" if x > 1e5 else "")


def check_program(prog, B, LogRepFloat, viol, counts):
    rp = {"engine": "logweights-program", "loads": prog["loads"], "ops": prog["ops"], "base": str(B)}
    desc = describe(prog, B)
    opsig = "+".join(o["op"] for o in prog["ops"]) or "load"
    cls = _mag_class(B)
    nops = len(prog["ops"])
    logs = [abs(exp_log(LEAVES[l], B)) for l in prog["loads"] if LEAVES[l][0]]
    vals = {}
    for r in (1, 2, 3):
        ev = prog["regs"][r - 1]
        if not ev:
            continue
        vals[r] = exp_log(ev, B)
        if ev[0]:
            logs.append(abs(vals[r]))
    scale = max([1.0] + [x for x in logs if math.isfinite(x)])
    tol = 64 * EPS * (nops + 2) * scale
    if tol > 1e-3 and any(o["op"] == "sub" for o in prog["ops"]):
        # at this magnitude the ROUNDED log-values of the operands of a difference cannot be told apart (a log-value x
        # resolves the weight to a relative eps*|x| only): the difference is not determined by the operands given
        counts["skipped_unresolved_differences"] = counts.get("skipped_unresolved_differences", 0) + 1
        return
    try:
        regs = _exec(prog, B, LogRepFloat)
    except Exception as e:  # noqa: BLE001
        viol.append((f"C20:program:{opsig}:exception:{type(e).__name__}:{cls}", f"{desc}: raised {type(e).__name__}: {e}", rp))
        return
    last = prog["ops"][-1]["op"] if prog["ops"] else "load"
    for r, want in vals.items():
        obj = regs[r]
        counts["values"] += 1
        if not isinstance(obj, LogRepFloat):
            viol.append((f"C20:program:{last}:not-log-represented:{cls}", f"{desc}: r{r} is a {type(obj).__name__} ({obj!r}), "
                         f"expected a LogRepFloat with log-value {want!r}", rp))
            continue
        got = obj.log_val
        bad = (math.isnan(got) or (want == -math.inf and got != -math.inf)
               or (want != -math.inf and not abs(got - want) <= tol))
        if bad:
            kind = "nan" if math.isnan(got) else "value"
            viol.append((f"C20:program:{last}:{kind}:{cls}", f"{desc}: r{r}.log_val = {got!r}, exact real arithmetic gives "
                         f"{want!r} (= log {_vs(ev_of(prog, r))}), tolerance {tol:.3g}", rp))
    # comparisons between log-represented weights
    for a, b, c3 in prog["cmps"]:
        x, y = regs[a], regs[b]
        if not (isinstance(x, LogRepFloat) and isinstance(y, LogRepFloat)):
            continue
        if c3 != 0 and not abs(vals[a] - vals[b]) > 4 * tol:
            continue  # the rounded operands cannot be told apart at this magnitude
        counts["comparisons"] += 1
        want = {"lt": c3 < 0, "le": c3 <= 0, "gt": c3 > 0, "ge": c3 >= 0, "eq": c3 == 0, "ne": c3 != 0}
        got = {"lt": x < y, "le": x <= y, "gt": x > y, "ge": x >= y, "eq": x == y, "ne": x != y}
        for k in want:
            if bool(got[k]) != want[k]:
                viol.append((f"C20:compare:{k}:{cls}", f"{desc}: (r{a} {k} r{b}) is {got[k]} but the real values satisfy "
                             f"{_vs(ev_of(prog, a))} {'<' if c3 < 0 else '=' if c3 == 0 else '>'} {_vs(ev_of(prog, b))}", rp))
                break
    # difference of two weights with the smaller first: a plain negative number, never NaN
    for a, b, sv in prog["negdiffs"]:
        x, y = regs[a], regs[b]
        if not (isinstance(x, LogRepFloat) and isinstance(y, LogRepFloat)):
            continue
        if not abs(vals[a] - vals[b]) > 4 * tol:
            continue
        counts["negative_differences"] += 1
        try:
            got = x - y
        except Exception as e:  # noqa: BLE001
            viol.append((f"C20:negdiff:exception:{type(e).__name__}:{cls}", f"{desc}: r{a} - r{b} raised {type(e).__name__}: {e}", rp))
            continue
        got = float(got) if not isinstance(got, LogRepFloat) else math.nan
        wl = exp_log(sv[1:], B)
        if math.isnan(got):
            viol.append((f"C20:negdiff:nan:{cls}", f"{desc}: r{a} - r{b} is NaN; the real difference is -exp({wl!r})", rp))
        elif abs(wl) < 700 and max(abs(vals[a]), abs(vals[b])) < 700:
            want = -math.exp(wl)
            if not abs(got - want) <= max(1e-11, 4 * tol) * math.exp(max(vals[a], vals[b])):
                viol.append((f"C20:negdiff:value:{cls}", f"{desc}: r{a} - r{b} = {got!r}, exact {want!r}", rp))
        elif got > 0:
            viol.append((f"C20:negdiff:sign:{cls}", f"{desc}: r{a} - r{b} = {got!r} is positive; the real difference is -exp({wl!r})", rp))
    # mixed operators with plain numbers: judged where the plain values involved are representable
    for m in prog["mixed"]:
        r, pname = m["r"], m["p"]
        x = regs[r]
        if not isinstance(x, LogRepFloat) or not (prog["regs"][r - 1][0] == 0 or abs(vals[r]) < 690):
            continue
        p = _plain(PLAINS[pname])
        xv = 0.0 if prog["regs"][r - 1][0] == 0 else math.exp(vals[r])
        for opn, fn in (("add", lambda: x + p), ("radd", lambda: p + x), ("sub", lambda: x - p), ("rsub", lambda: p - x),
                        ("mul", lambda: x * p), ("rmul", lambda: p * x), ("div", lambda: x / p), ("rdiv", lambda: p / x)):
            sv = m[{"radd": "add", "rmul": "mul"}.get(opn, opn)]
            if not sv:
                continue
            wl = exp_log(sv[1:], B) if sv[0] else -math.inf
            if sv[0] and abs(wl) > 690:
                continue
            want = sv[0] * math.exp(wl) if sv[0] else 0.0
            counts["mixed"] += 1
            try:
                got = float(fn())
            except Exception as e:  # noqa: BLE001
                viol.append((f"C20:mixed:{opn}:exception:{type(e).__name__}", f"{desc}: r{r} {opn} {p!r} raised {type(e).__name__}: {e}", rp))
                continue
            ref = max(abs(want), xv, p) if opn in ("add", "radd", "sub", "rsub") else abs(want)
            if math.isnan(got) or not abs(got - want) <= max(1e-11 * (nops + 2), 4 * tol) * max(ref, 1e-300):
                viol.append((f"C20:mixed:{opn}:value", f"{desc}: r{r} {opn} {p!r} = {got!r}, exact {want!r}", rp))
        if p > 0:
            # the negative of the plain number: every result follows from the exported ones by a sign rule
            # (x + (-p) = x - p, x - (-p) = x + p, (-p) - x = -(x + p), x * (-p) = -(x * p), ...); a weight is
            # non-negative (ValuesCanonical), so it compares above every negative number
            q = -p
            for opn, fn, src, sgn in (("add", lambda: x + q, "sub", 1), ("radd", lambda: q + x, "sub", 1), ("sub", lambda: x - q, "add", 1),
                                      ("rsub", lambda: q - x, "add", -1), ("mul", lambda: x * q, "mul", -1), ("rmul", lambda: q * x, "mul", -1),
                                      ("div", lambda: x / q, "div", -1), ("rdiv", lambda: q / x, "rdiv", -1)):
                sv = m[src]
                if not sv:
                    continue
                wl = exp_log(sv[1:], B) if sv[0] else -math.inf
                if sv[0] and abs(wl) > 690:
                    continue
                want = sgn * (sv[0] * math.exp(wl) if sv[0] else 0.0)
                counts["mixed"] += 1
                try:
                    got = float(fn())
                except Exception as e:  # noqa: BLE001
                    viol.append((f"C20:mixed-negative:{opn}:exception:{type(e).__name__}", f"{desc}: r{r} {opn} {q!r} raised {type(e).__name__}: {e}", rp))
                    continue
                ref = max(abs(want), xv, p) if opn in ("add", "radd", "sub", "rsub") else abs(want)
                if math.isnan(got) or not abs(got - want) <= max(1e-11 * (nops + 2), 4 * tol) * max(ref, 1e-300):
                    viol.append((f"C20:mixed-negative:{opn}:value", f"{desc}: r{r} {opn} {q!r} = {got!r}, exact {want!r}", rp))
            counts["comparisons"] += 1
            try:
                got = (x < q, x <= q, x > q, x >= q, x == q, x != q, q < x, q <= x, q > x, q >= x, q == x, q != x)
            except Exception as e:  # noqa: BLE001
                got = f"raised {type(e).__name__}: {e}"
            if got != (False, False, True, True, False, True, True, True, False, False, False, True):
                viol.append(("C20:compare-plain:negative", f"{desc}: comparisons of r{r} (a non-negative weight) with {q!r} "
                             f"(x<q, x<=q, x>q, x>=q, x==q, x!=q, q<x, q<=x, q>x, q>=x, q==x, q!=x) = {got}", rp))
        if m["cmp"] and (prog["regs"][r - 1][0] == 0 or p == 0.0 or abs(vals[r] - math.log(p)) > 4 * tol):
            c3 = m["cmp"][0]
            counts["comparisons"] += 1
            want = {"lt": c3 < 0, "le": c3 <= 0, "gt": c3 > 0, "ge": c3 >= 0, "eq": c3 == 0, "ne": c3 != 0}
            got = {"lt": x < p, "le": x <= p, "gt": x > p, "ge": x >= p, "eq": x == p, "ne": x != p}
            for k in want:
                if bool(got[k]) != want[k]:
                    viol.append((f"C20:compare-plain:{k}", f"{desc}: (r{r} {k} {p!r}) is {got[k]}, real comparison value {c3}", rp))
                    break
            # the plain number on the left (reflected operators, as in min(ratio, 1) and u < ratio of the transitions)
            want = {"lt": c3 > 0, "le": c3 >= 0, "gt": c3 < 0, "ge": c3 <= 0, "eq": c3 == 0, "ne": c3 != 0}
            got = {"lt": p < x, "le": p <= x, "gt": p > x, "ge": p >= x, "eq": p == x, "ne": p != x}
            for k in want:
                if bool(got[k]) != want[k]:
                    viol.append((f"C20:compare-plain-reflected:{k}", f"{desc}: ({p!r} {k} r{r}) is {got[k]}, real comparison value {-c3}", rp))
                    break
            if pname == "p1":
                counts["mixed"] += 1
                got = -x
                if isinstance(got, LogRepFloat) or math.isnan(got) or not abs(got + xv) <= max(1e-11 * (nops + 2), 4 * tol) * max(xv, 1e-300):
                    viol.append(("C20:mixed:neg:value", f"{desc}: -r{r} = {got!r}, exact {-xv!r}", rp))
                m1 = min(x, 1)
                m1 = m1.val if isinstance(m1, LogRepFloat) else float(m1)
                if not abs(m1 - min(xv, 1.0)) <= max(1e-11 * (nops + 2), 4 * tol):
                    viol.append(("C20:mixed:min1:value", f"{desc}: min(r{r}, 1) = {m1!r}, exact {min(xv, 1.0)!r}", rp))


def ev_of(prog, r):
    return prog["regs"][r - 1]


BASES_DEEP = [0, -40, 1100, -1100, 10 ** 6, -(10 ** 15)]


def _check_chunk(args):
    chunk, bases = args
    from mici.utils import LogRepFloat

    viol, counts = [], {"values": 0, "comparisons": 0, "negative_differences": 0, "mixed": 0, "executions": 0}
    for prog in chunk:
        prog["cmps"] = [tuple(x) for x in prog["cmps"]]
        for B in (BASES_DEEP if prog.get("deep") else bases):
            counts["executions"] += 1
            check_program(prog, B, LogRepFloat, viol, counts)
    return viol[:200], counts


def check_programs(progs, bases):
    import multiprocessing as mp

    size = 4000
    chunks = [(progs[i:i + size], bases) for i in range(0, len(progs), size)]
    if len(chunks) <= 2:
        results = [_check_chunk(c) for c in chunks]
    else:
        with mp.get_context("fork").Pool(12) as pool:
            results = pool.map(_check_chunk, chunks)
    viol, counts = [], {}
    for v, c in results:
        viol += v
        for k, n in c.items():
            counts[k] = counts.get(k, 0) + n
    return viol, counts


# ---- Part B: decimal oracle on exact float inputs ---------------------------------------------
PREC = 70


def _D(x):
    return Decimal(x)  # exact


def _expm1(d):
    """exp(d) - 1 for a Decimal d, accurate for tiny |d| as well."""
    if abs(d) < Decimal("1e-6"):
        t, s = d, Decimal(0)
        for i in range(1, 14):
            s += t
            t = t * d / (i + 1)
        return s
    return d.exp() - 1


def _ln1p(y):
    """ln(1 + y), y > -1, accurate for tiny |y|."""
    if abs(y) < Decimal("1e-6"):
        t, s = y, Decimal(0)
        for i in range(1, 14):
            s += t / i if i % 2 else -t / i
            t = t * y
        return s
    return (1 + y).ln()


def _safe_exp(d):
    if d < -2_000_000:
        return Decimal(0)
    return d.exp()


def ora_log1p_exp(x):
    with localcontext() as c:
        c.prec = PREC
        d = _D(x)
        if d > 0:
            return d + _ln1p(_safe_exp(-d))
        return _ln1p(_safe_exp(d))


def ora_log1m_exp(x):
    with localcontext() as c:
        c.prec = PREC
        d = _D(x)
        if d > -1:
            return (-_expm1(d)).ln()
        return _ln1p(-_safe_exp(d))


def _exact_diff(a, b):
    f = Fraction(a) - Fraction(b)
    with localcontext() as c:
        c.prec = PREC
        return Decimal(f.numerator) / Decimal(f.denominator)


def ora_log_sum_exp(a, b):
    if a == -math.inf:
        return Decimal(b) if b != -math.inf else None
    if b == -math.inf:
        return Decimal(a)
    hi, lo = (a, b) if a >= b else (b, a)
    with localcontext() as c:
        c.prec = PREC
        return _D(hi) + _ln1p(_safe_exp(_exact_diff(lo, hi)))


def ora_log_diff_exp(a, b):
    """a > b finite (or b = -inf)."""
    if b == -math.inf:
        return Decimal(a)
    with localcontext() as c:
        c.prec = PREC
        d = _exact_diff(b, a)
        if d > -1:
            return _D(a) + (-_expm1(d)).ln()
        return _D(a) + _ln1p(-_safe_exp(d))


def _close(got, exact, scale):
    """|got - exact| <= 8 eps scale (+ the smallest subnormal)."""
    if math.isnan(got):
        return False
    with localcontext() as c:
        c.prec = PREC
        if math.isinf(got):
            return False
        err = abs(Decimal(got) - exact)
        return err <= Decimal(8 * EPS) * Decimal(scale) + Decimal(5e-324) * 2


def _args_grid(tier, rng):
    xs = {0.0, 5e-324, 2.2250738585072014e-308, 1e-300, 1e-200, 1e-100, 1e-30, 1e-20, 1e-17, 1.1102230246251565e-16, 2.220446049250313e-16,
          1e-15, 1e-12, 3e-10, 1e-9, 1e-8, 1e-6, 1e-4, 1e-3, 0.01, 0.1, 0.3, 0.5, 0.6, LN2, 0.7, 1.0, 1.5, 2.0, 5.0, 10.0, 18.0, 30.0, 36.0,
          36.7, 37.0, 40.0, 100.0, 500.0, 700.0, 709.0, 709.78, 710.0, 744.0, 745.0, 745.2, 746.0, 800.0, 1e4, 1e10, 1e100, 1e300, 1.7e308}
    xs |= {math.nextafter(LN2, 0.0), math.nextafter(LN2, 1.0)}
    for k in range(1, 64, 1 if tier != "quick" else 3):
        xs.add(3 * 2.0 ** -(k + 1))
        xs.add(2.0 ** -k)
        xs.add(5 * 2.0 ** -(k + 2))
    n = 40 if tier == "quick" else 400
    for _ in range(n):
        xs.add(10 ** rng.uniform(-18, 3))
        xs.add(rng.uniform(0.0, 2.0))
    return sorted(xs)


def numeric_checks(tier, seed):
    from mici import utils as U
    from mici.utils import LogRepFloat

    rng = random.Random(1234 + seed)
    viol, n = [], 0
    grid = _args_grid(tier, rng)

    def report(sig, what, rp):
        viol.append((sig, what, dict(rp, engine="logweights-numeric")))

    def region(x):
        ax = abs(x)
        return "tiny" if ax < 1e-8 else "small" if ax < LN2 else "moderate" if ax < 36 else "large" if ax < 746 else "huge"

    # single-argument helpers
    for x0 in grid:
        for x in (x0, -x0):
            n += 1
            got = _safe(U.log1p_exp, x)
            ex = ora_log1p_exp(x)
            if not _close(got, ex, abs(ex)):
                report(f"C20:log1p_exp:{'pos' if x > 0 else 'neg'}:{region(x)}", f"log1p_exp({x!r}) = {got!r}, exact {float(ex)!r} "
                       f"(relative error {float(abs(Decimal(got) - ex) / abs(ex)) if ex else 0:.3g})", {"fn": "log1p_exp", "args": [x]})
        n += 1
        try:
            got = U.log1m_exp(-x0)
        except Exception as e:  # noqa: BLE001
            report(f"C20:log1m_exp:{region(x0)}:exception:{type(e).__name__}", f"log1m_exp({-x0!r}) raised {type(e).__name__}: {e}; "
                   f"exact value {float(ora_log1m_exp(-x0)) if x0 else 'log 0'!r}", {"fn": "log1m_exp", "args": [-x0]})
            continue
        if x0 == 0.0:
            if not (math.isnan(got) or got == -math.inf):
                report("C20:log1m_exp:zero", f"log1m_exp(-0.0) = {got!r}", {"fn": "log1m_exp", "args": [-x0]})
        else:
            ex = ora_log1m_exp(-x0)
            if not _close(got, ex, abs(ex)):
                with localcontext() as c:
                    c.prec = PREC
                    rel = float(abs(Decimal(got) - ex) / abs(ex)) if not (math.isnan(got) or math.isinf(got)) else math.nan
                report(f"C20:log1m_exp:{region(x0)}", f"log1m_exp({-x0!r}) = {got!r}, exact {float(ex)!r} (relative error {rel:.3g})",
                       {"fn": "log1m_exp", "args": [-x0]})

    # two-argument helpers and the operators on arbitrary log-values
    bases = [0.0, 1.0, -1.0, 0.1, 30.0, -30.0, 700.0, -700.0, 745.0, -745.5, 800.0, -800.0, 1e5, -1e5, 1e15, -1e15, 1e300, -1e300, 1e-300, 5e-324]
    if tier != "quick":
        bases += [rng.uniform(-2000, 2000) for _ in range(40)]
    gaps = [g for g in grid if g <= 1e4]
    if tier == "quick":
        gaps = gaps[::2]
    pairs = [(v + g, v) for v in bases for g in gaps]
    # a moderate weight next to one that is smaller by an astronomic factor (the larger argument decides the scale)
    for hi in (0.0, 0.3, -2.5, 5.0, 1e-300, 700.0, -700.0, 1e5, -1e5, 1e308):
        for lo in (-1e3, -1e5, -1e10, -1e15, -1e100, -1e300, -1.7e308):
            if lo < hi:
                pairs.append((hi, lo))
    if True:
        for w, v in pairs:
            if math.isinf(w):
                continue
            n += 1
            rp = {"fn": "pair", "args": [w, v]}
            scale = max(1.0, abs(w))  # w >= v: the larger log-value decides the magnitude of every result
            reg = region(w - v) if w != v else "equal"
            # sums (both argument orders, function and operators)
            ex = ora_log_sum_exp(w, v)
            for nm, got in (("log_sum_exp", _safe(U.log_sum_exp, w, v)), ("log_sum_exp-swapped", _safe(U.log_sum_exp, v, w)),
                            ("add", _lv(_safe(lambda: LogRepFloat(log_val=w) + LogRepFloat(log_val=v)), LogRepFloat)),
                            ("iadd", _iadd(LogRepFloat, w, v)), ("iadd-swapped", _iadd(LogRepFloat, v, w))):
                if not _close(got, ex, max(scale, abs(float(ex)))):
                    report(f"C20:{nm}:{reg}:{_mc(v)}", f"{nm} of log-values {w!r}, {v!r} gives {got!r}, exact {float(ex)!r}", rp)
            # differences
            if w == v:
                for nm, got in (("log_diff_exp", _safe(U.log_diff_exp, w, v)),
                                ("sub", _safe(lambda: LogRepFloat(log_val=w) - LogRepFloat(log_val=v)))):
                    got = got.log_val if isinstance(got, LogRepFloat) else got
                    if got != -math.inf:
                        report(f"C20:{nm}:equal:{_mc(v)}", f"{nm} of equal log-values {w!r} gives {got!r}, expected -inf (zero weight)", rp)
            else:
                ex = ora_log_diff_exp(w, v)
                for nm, got in (("log_diff_exp", _safe(U.log_diff_exp, w, v)),
                                ("sub", _safe(lambda: LogRepFloat(log_val=w) - LogRepFloat(log_val=v)))):
                    if nm == "sub":
                        got = _lv(got, LogRepFloat)
                    if not _close(got, ex, max(scale, abs(float(ex)))):
                        report(f"C20:{nm}:{reg}:{_mc(v)}", f"{nm} of log-values {w!r}, {v!r} (gap {w - v!r}) gives {got!r}, exact {float(ex)!r}, "
                               f"error {abs(got - float(ex)):.3g}", rp)
                got = _safe(U.log_diff_exp, v, w)
                if not math.isnan(got) or isinstance(got, _Raised):
                    report(f"C20:log_diff_exp:negative:{_mc(v)}", f"log_diff_exp({v!r}, {w!r}) = {got!r} for a negative difference (documented NaN)", rp)
                got = _safe(lambda: LogRepFloat(log_val=v) - LogRepFloat(log_val=w))
                if isinstance(got, LogRepFloat) or math.isnan(got) or got > 0:
                    report(f"C20:sub:smaller-first:{'nan' if not isinstance(got, LogRepFloat) and math.isnan(got) else 'value'}:{_mc(v)}",
                           f"LogRepFloat(log_val={v!r}) - LogRepFloat(log_val={w!r}) = {got!r}; the real difference is negative", rp)
            # products, ratios, comparisons
            x, y = LogRepFloat(log_val=w), LogRepFloat(log_val=v)
            if math.isfinite(w + v):
                got = _lv(_safe(lambda: x * y), LogRepFloat)
                if not abs(got - (w + v)) <= 4 * EPS * max(scale, abs(v)):
                    report(f"C20:mul:{_mc(v)}", f"log-value of the product of weights with log-values {w!r}, {v!r} is {got!r}, exact {w + v!r}", rp)
            got = _lv(_safe(lambda: x / y), LogRepFloat) if math.isfinite(w - v) else w - v
            if math.isfinite(w - v) and not abs(got - (w - v)) <= 4 * EPS * max(scale, abs(v)):
                report(f"C20:div:{_mc(v)}", f"log-value of the ratio of weights with log-values {w!r}, {v!r} is {got!r}, exact {w - v!r}", rp)
            c3 = (w > v) - (w < v)
            got = _safe(lambda: ((x > y), (x >= y), (x < y), (x <= y), (x == y), (x != y)))
            if got != (c3 > 0, c3 >= 0, c3 < 0, c3 <= 0, c3 == 0, c3 != 0):
                report(f"C20:compare:pair:{_mc(v)}", f"comparisons (>, >=, <, <=, ==, !=) of weights with log-values {w!r}, {v!r} give {got!r}", rp)
    for v in bases:
        # zero weights
        z, y = LogRepFloat(0.0), LogRepFloat(log_val=v)
        n += 1
        for nm, fn, want in (("zero+x", lambda: (z + y).log_val, v), ("x+zero", lambda: (y + z).log_val, v), ("x-zero", lambda: (y - z).log_val, v),
                             ("zero*x", lambda: (z * y).log_val, -math.inf), ("zero/x", lambda: (z / y).log_val, -math.inf),
                             ("x+=zero", lambda: _iadd(LogRepFloat, v, -math.inf), v), ("zero+=x", lambda: _iadd(LogRepFloat, -math.inf, v), v),
                             ("x+=0.0", lambda: _iaddp(LogRepFloat, v, 0.0), v), ("zero+zero", lambda: (z + z).log_val, -math.inf),
                             ("zero-zero", lambda: (z - z).log_val, -math.inf),
                             ("zero+=zero", lambda: _iadd(LogRepFloat, -math.inf, -math.inf), -math.inf),
                             ("log_sum_exp(-inf,x)", lambda: U.log_sum_exp(-math.inf, v), v),
                             ("log_diff_exp(x,-inf)", lambda: U.log_diff_exp(v, -math.inf), v),
                             ("log_diff_exp(-inf,-inf)", lambda: U.log_diff_exp(-math.inf, -math.inf), -math.inf)):
            got = _safe(fn)
            if math.isnan(got) or got != want:
                report(f"C20:zero:{nm}:{_mc(v)}", f"{nm} with x of log-value {v!r}: log-value {got!r}, expected {want!r}", {"fn": "zero", "args": [v]})
        if _safe(lambda: (z < y and y > z and z <= y and not (z == y) and z == LogRepFloat(0.0) and z == 0.0 and not (z > 0.0))) is not True:
            report(f"C20:zero:compare:{_mc(v)}", f"zero weight does not compare below the weight of log-value {v!r}", {"fn": "zero", "args": [v]})

    # plain value <-> log-value conversions and in-place accumulation of plain numbers
    for v in sorted(set(bases) | {709.0, 709.78, 709.79, 710.0, -708.0, -744.0, -745.0, -745.2, -746.0, 1.7e308, -1.7e308}):
        n += 1
        got = _safe(lambda: LogRepFloat(log_val=v).val)
        with localcontext() as c:
            c.prec = PREC
            ex = _safe_exp(Decimal(v)) if v < 709.782712893384 else None
        if ex is None:
            ok = got == math.inf
        elif v < -745.14:
            ok = got == 0.0 or (isinstance(got, float) and 0.0 <= got <= 5e-324)
        else:
            ok = (not math.isnan(got)) and math.isfinite(got) and abs(Decimal(got) - ex) <= Decimal(4 * EPS * max(1.0, abs(v))) * ex + Decimal(5e-324)
        if not ok:
            report(f"C20:val:{_mc(v)}", f"LogRepFloat(log_val={v!r}).val = {got!r}, exact {'overflow (inf)' if ex is None else repr(float(ex))}", {"fn": "val", "args": [v]})
    for x in (5e-324, 2.2250738585072014e-308, 1e-300, 1e-17, 0.5, 1.0, 1.0000000000000002, 3.0, 1e17, 1e300, 1.7976931348623157e308, 0.0, -0.0, 7, True):
        n += 1
        got = _safe(lambda: LogRepFloat(x).log_val)
        want = math.log(x) if x > 0 else -math.inf
        if math.isnan(got) or (got != want and not abs(got - want) <= 2 * EPS * abs(want)):
            report("C20:constructor", f"LogRepFloat({x!r}).log_val = {got!r}, exact {want!r}", {"fn": "constructor", "args": [float(x)]})
    for v in bases:
        for pl in (5e-324, 1e-300, 1e-30, 0.5, 1.0, 3.0, 1e17, 1e300):
            n += 1
            lp = math.log(pl)
            hi, lo = (v, lp) if v >= lp else (lp, v)
            ex = ora_log_sum_exp(hi, lo)
            got = _iaddp(LogRepFloat, v, pl)
            if not _close(got, ex, 2 * max(1.0, abs(hi), abs(float(ex)))):
                report(f"C20:iadd-plain:{_mc(v)}", f"x += {pl!r} with x of log-value {v!r}: log-value {got!r}, exact {float(ex)!r}", {"fn": "iaddplain", "args": [v, pl]})
    # in-place accumulation sequences of arbitrary weights against the exact sum
    nseq = 30 if tier == "quick" else 300
    for i in range(nseq):
        base = rng.choice([0.0, 50.0, -50.0, 720.0, -720.0, 760.0, -760.0, 5000.0, -5000.0, 1e8, -1e8])
        length = rng.choice([2, 3, 5, 17, 60, 200])
        spread = rng.choice([0.5, 5.0, 40.0, 800.0])
        lv = [base + rng.uniform(-spread, spread) for _ in range(length)]
        kinds = [rng.choice(["log", "log", "zero", "plain0"]) for _ in range(length)]
        kinds[0] = "log"
        terms = [lv[0]] + [v for v, kd in zip(lv[1:], kinds[1:]) if kd == "log"]

        def accumulate():
            acc = LogRepFloat(log_val=lv[0])
            for v, kd in zip(lv[1:], kinds[1:]):
                if kd == "log":
                    acc += LogRepFloat(log_val=v)
                elif kd == "zero":
                    acc += LogRepFloat(0.0)
                else:
                    acc += 0.0
            return acc
        acc = _safe(accumulate)
        n += 1
        hi = max(terms)
        with localcontext() as c:
            c.prec = PREC
            s = sum((_safe_exp(_exact_diff(t, hi)) for t in terms), Decimal(0))
            ex = Decimal(hi) + s.ln()
        ok = isinstance(acc, LogRepFloat) and not math.isnan(acc.log_val) and \
            abs(Decimal(acc.log_val) - ex) <= Decimal(8 * EPS * len(terms)) * Decimal(max(1.0, abs(hi)))
        if not ok:
            report(f"C20:accumulate:{_mc(base)}", f"in-place accumulation of {len(terms)} weights with log-values around {base!r} (spread {spread}) "
                   f"gives log-value {getattr(acc, 'log_val', acc)!r}, exact {float(ex)!r}", {"fn": "accumulate", "seq": i, "seed": seed, "tier": tier})
    return viol, n


class _Raised(float):
    """NaN that remembers the exception it stands for (shown in messages)."""

    def __new__(cls, exc):
        o = super().__new__(cls, "nan")
        o.exc = exc
        return o

    def __repr__(self):
        return f"<raised {type(self.exc).__name__}: {self.exc}>"


def _safe(fn, *a):
    """Call fn; an exception becomes a NaN carrying the exception."""
    try:
        return fn(*a)
    except Exception as e:  # noqa: BLE001
        return _Raised(e)


def _lv(x, L):
    """log-value of a result that should be log-represented (NaN if it is not)."""
    return x.log_val if isinstance(x, L) else (x if isinstance(x, _Raised) else math.nan)


def _mc(v):
    a = abs(v)
    return "moderate" if a < 700 else ("overflow" if v > 0 else "underflow")


def _iadd(L, a, b):
    def f():
        x = L(log_val=a)
        x += L(log_val=b)
        return x
    return _lv(_safe(f), L)


def _iaddp(L, a, p):
    def f():
        x = L(log_val=a)
        x += p
        return x
    return _lv(_safe(f), L)


def offset_invariance(tier):
    """The trajectory weights of the dynamic transitions are exp(-h): adding a constant to the energy multiplies every
    weight by the same factor 2^s, which the exact model (values with c = 0 do not depend on B) says cannot change a
    ratio of weights -- so chains with energy offsets at which exp(-h) over/underflows must make the same decisions."""
    import numpy as np
    import mici

    viol, runs = [], 0
    n_iter = 25 if tier == "quick" else 120

    def chain(offset, cls):
        system = mici.systems.EuclideanMetricSystem(neg_log_dens=lambda q: 0.5 * float(q @ q) + 0.1 * float(q[0]) ** 4 + offset,
                                                    grad_neg_log_dens=lambda q: q + 0.4 * np.array([q[0] ** 3, 0.0, 0.0]))
        integrator = mici.integrators.LeapfrogIntegrator(system, step_size=0.45)
        trans = cls(system, integrator, max_tree_depth=5)
        mom = mici.transitions.IndependentMomentumTransition(system)
        rng = np.random.default_rng(11)
        state = mici.states.ChainState(pos=np.array([0.3, -1.2, 0.8]), mom=None, dir=1)
        out = []
        for _ in range(n_iter):
            state, _ = mom.sample(state, rng)
            state, stats = trans.sample(state, rng)
            out.append((np.array(state.pos), stats["n_step"], float(stats["av_metrop_accept_prob"]), float(stats["reject_prob"]),
                        bool(stats["diverging"])))
        return out

    class PlainWeights(mici.transitions.MultinomialDynamicIntegrationTransition):
        """the same kernel with immutable plain-float weights relative to the initial energy (accurate at moderate
        energies): the log-represented pipeline must make the same decisions"""

        def _weight_function(self, h, aux_vars):
            return float(np.exp(aux_vars["h_init"] - h))

    for cls_name in ("MultinomialDynamicIntegrationTransition", "SliceDynamicIntegrationTransition"):
        cls = getattr(mici.transitions, cls_name)
        ref = chain(0.0, cls)
        if cls_name.startswith("Multinomial"):
            runs += 1
            plain = chain(0.0, PlainWeights)
            for i, (a, b) in enumerate(zip(plain, ref)):
                if a[1] != b[1] or not np.allclose(a[0], b[0], atol=1e-6) or abs(a[3] - b[3]) > 1e-6 or abs(a[2] - b[2]) > 1e-6:
                    viol.append((f"C20:transition-weights:{cls_name}:plain-reference",
                                 f"{cls_name} with log-represented weights differs from the same kernel with plain weights exp(h_init - h) at "
                                 f"moderate energies: iteration {i}: state {b[0].tolist()} after {b[1]} steps, reject_prob {b[3]!r}; plain weights: "
                                 f"{a[0].tolist()} after {a[1]} steps, reject_prob {a[3]!r}", {"fn": "offset", "args": [cls_name, "plain"], "tier": tier,
                                                                                             "engine": "logweights-numeric"}))
                    break
        for offset in (800.0, -800.0, 1.0e4, -1.0e4, 35.0, -35.0, 100.0) + ((1.0e5, -1.0e5, 745.0, -709.0, -100.0, 20.0, -20.0, 300.0) if tier != "quick" else ()):
            runs += 1
            rp = {"fn": "offset", "args": [cls_name, offset], "tier": tier}
            try:
                got = chain(offset, cls)
            except Exception as e:  # noqa: BLE001
                viol.append((f"C20:transition-weights:{cls_name}:exception:{type(e).__name__}", f"{cls_name} with the energy shifted by "
                             f"{offset:g} raised {type(e).__name__}: {e}", dict(rp, engine="logweights-numeric")))
                continue
            for i, (a, b) in enumerate(zip(ref, got)):
                bad = None
                if not np.all(np.isfinite(b[0])) or math.isnan(b[2]) or math.isnan(b[3]):
                    bad = "non-finite state or statistics"
                elif a[1] != b[1] or a[4] != b[4] or not np.allclose(a[0], b[0], atol=1e-6):
                    bad = f"different decision: state {b[0].tolist()} after {b[1]} steps instead of {a[0].tolist()} after {a[1]}"
                elif abs(a[3] - b[3]) > 1e-6 or abs(a[2] - b[2]) > 1e-6:
                    bad = f"statistics differ: reject_prob {b[3]!r} vs {a[3]!r}, accept {b[2]!r} vs {a[2]!r}"
                if bad:
                    viol.append((f"C20:transition-weights:{cls_name}:{'overflow' if offset < 0 else 'underflow'}",
                                 f"{cls_name}, energy shifted by {offset:g} (all trajectory weights scaled by exp({-offset:g})): iteration {i}: {bad}",
                                 dict(rp, engine="logweights-numeric")))
                    break
    return viol, runs


def check_all(tier, name, seed=0):
    progs, stats = run_spec(tier, name)
    bases = BASES_QUICK if tier == "quick" else BASES_THOROUGH
    viol, counts = check_programs(progs, bases)
    # binding self-test: a corrupted oracle value (exponent off by one) must be rejected by the comparison
    import copy
    from mici.utils import LogRepFloat
    probe = copy.deepcopy(next(p for p in progs if p["ops"] and p["regs"][0][0]))
    probe["regs"][0][3] += 1
    probe["cmps"], probe["negdiffs"], probe["mixed"] = [], [], []
    pv = []
    check_program(probe, 0, LogRepFloat, pv, {"values": 0, "comparisons": 0, "negative_differences": 0, "mixed": 0})
    if not pv:
        raise MachineryError("binding self-test failed: a corrupted exact value was accepted")
    nviol, nn = numeric_checks(tier, seed)
    oviol, on = offset_invariance(tier)
    nviol += oviol
    nn += on
    return {"viol": viol + nviol, "stats": stats, "programs": len(progs), "bases": [_bs(b) for b in bases], "counts": counts,
            "numeric_points": nn, "sample": progs[len(progs) // 2]}
