"""Engine for specs/MatGrad.tla (C11): exact rational parameter gradients of the differentiable matrix classes,
evaluated by TLC from the classes' documented meaning, demanded from the real objects."""

from __future__ import annotations

from concurrent.futures import ThreadPoolExecutor

import numpy as np

from mbv import matrices_engine as ME
from mbv import tlc
from mbv.tlc import MachineryError

SCALAR = {"ScaledIdentityMatrix", "PositiveScaledIdentityMatrix"}
VECTOR = {"DiagonalMatrix", "PositiveDiagonalMatrix"}
TRI = {"TriangularFactoredDefiniteMatrix", "TriangularFactoredPositiveDefiniteMatrix"}
DENSE = {"DenseDefiniteMatrix", "DensePositiveDefiniteMatrix"}
PRODUCT = {"DensePositiveDefiniteProductMatrix"}
LOWRANK = {"PositiveDefiniteLowRankUpdateMatrix"}
BLOCK = {"PositiveDefiniteBlockDiagonalMatrix"}
DIFF = SCALAR | VECTOR | TRI | DENSE | PRODUCT | LOWRANK | BLOCK

CFG = """SPECIFICATION Spec
CONSTANT GradLeaves <- GradLeavesDef
INVARIANT EulerLogDet
INVARIANT EulerQuad
INVARIANT UnusedTriangleInert
INVARIANT Export
CHECK_DEADLOCK FALSE
"""


def grad_leaves():
    out = []
    for l in ME.PARAMS:
        if l["cls"] not in DIFF:
            continue
        if l["cls"] in BLOCK and not all(ME.BY_NAME[s]["cls"] in (DIFF - BLOCK) for s in l["subs"]):
            continue   # a block that is not differentiable makes the block matrix non-differentiable (RuntimeError)
        out.append(l["name"])
    return out


def run_spec(names, name, shards=12):
    shards = max(1, min(shards, len(names)))
    parts = [names[i::shards] for i in range(shards)]

    def one(a):
        idx, part = a
        d = tlc.fresh_dir(f"{name}_{idx}")
        tlc.stage_specs(d, ["MatGrad.tla", "MatSemantics.tla"])
        (d / "MatLeaves.tla").write_text(ME.leaves_module())
        (d / "MCMatGrad.tla").write_text("---- MODULE MCMatGrad ----\nEXTENDS MatGrad\nGradLeavesDef == {"
                                         + ", ".join(tlc.tla_str(n) for n in part) + "}\n====\n")
        return tlc.run_tlc(d, "MCMatGrad", CFG, workers=1, timeout=1500, cpus=1, heap="2g")

    with ThreadPoolExecutor(max_workers=shards) as ex:
        results = list(ex.map(one, enumerate(parts)))
    recs, gen, dist = {}, 0, 0
    for r in results:
        if not r.ok:
            raise MachineryError(f"MatGrad.tla violates its own identities: {r.violated}\n{r.stdout[-1500:]}")
        gen += r.generated
        dist += r.distinct
        for p in r.printed:
            if isinstance(p, dict) and "leaf" in p:
                recs[p["leaf"] + (".inv" if p.get("derived") else "")] = p
    missing = [n for n in names if n not in recs]
    if missing:
        raise MachineryError(f"MatGrad export incomplete: {missing}")
    return recs, {"generated": gen, "distinct": dist}


def _rat(x):
    return x[0] / x[1]


def _mat(m):
    return np.array([[_rat(x) for x in row] for row in m], dtype=float)


def _shape_as_param(cls, exact):
    """The exact gradient (a matrix over the parameter entries) in the structure of the class's first parameter."""
    if cls in SCALAR:
        return float(exact[0, 0])
    if cls in VECTOR:
        return exact[0]
    return exact


def _close(a, b):
    a, b = np.asarray(a, dtype=float), np.asarray(b, dtype=float)
    if a.shape != b.shape:
        return False
    return bool(np.all(np.abs(a - b) <= 1e-9 * max(1.0, float(np.max(np.abs(b))) if b.size else 1.0)))


def _tag(l):
    return l["cls"] + ("(sign=-1)" if l.get("sign") == -1 else "") + ("(upper)" if l.get("lower") is False else "")


def check_against_real(recs):
    """Returns (violations [(owner, sig, what, replay)], number of gradient entries compared)."""
    viol, n = [], 0
    for key, rec in recs.items():
        name = rec["leaf"]
        l = ME.BY_NAME[name]
        rp = {"engine": "matgrad", "leaf": name}
        obj = ME.build_leaf(name)
        if rec.get("derived"):
            obj = obj.inv     # an object of the same class, built by the library itself (inverse factors inside)
            l = dict(l, cls=l["cls"] + ".inv")
        name = key
        v = np.array([_rat(x) for x in rec["vec"]])

        def one(o, cls_l, blk, vec, where):
            nonlocal n
            cls = blk["cls"]
            for kind, exact, get in (("grad_log_abs_det", _mat(blk["gl"]), lambda: o.grad_log_abs_det),
                                     ("grad_quadratic_form_inv", _mat(blk["gq"]), lambda: o.grad_quadratic_form_inv(vec))):
                want = _shape_as_param(cls, exact)
                try:
                    got = get()
                except Exception as e:  # noqa: BLE001
                    viol.append(("C11", f"C11:{_tag(cls_l)}:{kind}:exception:{type(e).__name__}", f"{where}: {kind} raised {e!r}", rp))
                    continue
                n += int(np.size(want))
                if cls in SCALAR:
                    ok = np.ndim(got) == 0 and _close(float(got), want)
                else:
                    ok = _close(got, want)
                if not ok:
                    shape_ok = np.shape(got) == np.shape(want)
                    viol.append(("C11", f"C11:{_tag(cls_l)}:{kind}" + ("" if shape_ok else ":structure"),
                                 f"{where}: {kind} is {np.round(np.asarray(got, dtype=float), 9).tolist()}, the true derivative with respect to the "
                                 f"defining parameter is {np.round(np.asarray(want, dtype=float), 9).tolist()}"
                                 + ("" if shape_ok else " (not in the structure of the parameter)"), rp))

        if rec["block"]:
            try:
                gl, gq = obj.grad_log_abs_det, obj.grad_quadratic_form_inv(v)
                if not (isinstance(gl, tuple) and isinstance(gq, tuple) and len(gl) == len(rec["blocks"]) == len(gq)):
                    viol.append(("C11", f"C11:{l['cls']}:structure", f"{name}: gradients are not tuples over the blocks", rp))
                    continue
            except Exception as e:  # noqa: BLE001
                viol.append(("C11", f"C11:{l['cls']}:exception:{type(e).__name__}", f"{name}: gradient raised {e!r}", rp))
                continue
            off = 0
            for bi, (sub, blk) in enumerate(zip(l["subs"], rec["blocks"])):
                so = ME.build_leaf(sub)
                k = so.shape[0]

                class _Proxy:   # the block's share of the tuple returned by the block matrix
                    grad_log_abs_det = gl[bi]

                    @staticmethod
                    def grad_quadratic_form_inv(_vec, _g=gq[bi]):
                        return _g

                one(_Proxy, ME.BY_NAME[sub], blk, v[off:off + k], f"{name} block {bi + 1} ({sub})")
                off += k
        else:
            one(obj, l, rec["blocks"][0], v, name)
        # a reported gradient is a value: evaluating the gradient again (another vector, the other gradient) on the
        # same object must not change a result handed out earlier
        try:
            first_q = obj.grad_quadratic_form_inv(v)
            first_l = obj.grad_log_abs_det
            keep = [np.array(x, dtype=float, copy=True) for x in (first_q if isinstance(first_q, tuple) else (first_q,))]
            keepl = [np.array(x, dtype=float, copy=True) for x in (first_l if isinstance(first_l, tuple) else (first_l,))]
            obj.grad_quadratic_form_inv(2.0 * v[::-1] + 1.0)
            _ = obj.grad_log_abs_det
            now = [np.asarray(x, dtype=float) for x in (first_q if isinstance(first_q, tuple) else (first_q,))]
            nowl = [np.asarray(x, dtype=float) for x in (first_l if isinstance(first_l, tuple) else (first_l,))]
            if any(not np.array_equal(a, b) for a, b in zip(keep + keepl, now + nowl)):
                viol.append(("C11", f"C11:{_tag(l)}:result-overwritten",
                             f"{name}: a gradient returned earlier changed when the gradient was evaluated again for another vector", rp))
        except Exception:  # noqa: BLE001
            pass
    return viol, n


# ---- SoftAbs: not a rational function of its parameter; numerical central differences (not decided by the spec) ----
def softabs_numeric():
    import mici.matrices as M

    viol, n = [], 0
    cases = {
        "generic": (np.array([[0.5, 1.0, 0.0], [1.0, -1.5, 0.5], [0.0, 0.5, 2.0]]), 1.5),
        "small-coeff": (np.array([[0.5, 1.0, 0.0], [1.0, -1.5, 0.5], [0.0, 0.5, 2.0]]), 0.3),
        "large-coeff": (np.array([[0.5, 1.0], [1.0, -1.5]]), 20.0),
        "repeated-eigenvalues": (np.diag([1.0, 1.0, 2.0]), 1.5),
        "repeated-eigenvalues-rotated": (None, 1.0),
        "size-1": (np.array([[0.7]]), 2.0),
        "tiny-eigenvalue-large-coeff": (np.diag([8e-5, 0.7]) + 0.0, 3e4),
        "tiny-eigenvalue-large-coeff-rotated": (None, 2e4),
        "tiny-eigenvalue-small-coeff": (np.diag([5e-5, -1.3, 0.6]), 0.8),
    }
    r2 = np.array([[0.6, -0.8], [0.8, 0.6]])
    cases["tiny-eigenvalue-large-coeff-rotated"] = (r2 @ np.diag([-6e-5, 1.1]) @ r2.T, 2e4)
    q = np.array([[0.6, -0.8, 0.0], [0.8, 0.6, 0.0], [0.0, 0.0, 1.0]]) @ np.array([[1.0, 0.0, 0.0], [0.0, 0.28, -0.96], [0.0, 0.96, 0.28]])
    cases["repeated-eigenvalues-rotated"] = (q @ np.diag([0.5, 0.5, -1.0]) @ q.T, 1.0)
    for label, (s, coeff) in cases.items():
        k = s.shape[0]
        v = np.array([1.0, -2.0, 0.5])[:k]
        rp = {"engine": "matgrad-softabs", "case": label}

        def mk(a):
            return M.SoftAbsRegularizedPositiveDefiniteMatrix(a, coeff)

        def fd(f):
            g = np.zeros((k, k))
            e = 1e-5 if float(np.min(np.abs(np.linalg.eigvalsh(s)))) > 1e-2 else 2e-7
            for i in range(k):
                for j in range(k):
                    d = np.zeros((k, k))
                    d[i, j] += e / 2
                    d[j, i] += e / 2          # the parameter is a symmetric array: perturb symmetrically
                    g[i, j] = (f(mk(s + d)) - f(mk(s - d))) / (2 * e)
            return g

        try:
            with np.errstate(all="ignore"):
                m = mk(s)
                got_l, got_q = np.asarray(m.grad_log_abs_det, dtype=float), np.asarray(m.grad_quadratic_form_inv(v), dtype=float)
                want_l = fd(lambda x: x.log_abs_det)
                want_q = fd(lambda x: float(v @ (x.inv @ v)))
        except Exception as e:  # noqa: BLE001
            viol.append(("C11", f"C11:SoftAbsRegularizedPositiveDefiniteMatrix:{label}:exception:{type(e).__name__}", f"SoftAbs ({label}): {e!r}", rp))
            continue
        for kind, got, want in (("grad_log_abs_det", got_l, want_l), ("grad_quadratic_form_inv", got_q, want_q)):
            n += want.size
            # the reported gradient is with respect to the symmetric array: compare its symmetric part
            gs = 0.5 * (got + got.T)
            ws = 0.5 * (want + want.T)
            if not (np.all(np.isfinite(gs)) and np.all(np.abs(gs - ws) <= 1e-5 * max(1.0, float(np.max(np.abs(ws)))))):
                viol.append(("C11", f"C11:SoftAbsRegularizedPositiveDefiniteMatrix:{label}:{kind}",
                             f"SoftAbs matrix ({label}, coefficient {coeff}): {kind} is {np.round(gs, 6).tolist()}, central differences give "
                             f"{np.round(ws, 6).tolist()}", rp))
    return viol, n


def check_all(tier, name):
    names = grad_leaves()
    recs, stats = run_spec(names, name)
    viol, n = check_against_real(recs)
    v2, n2 = softabs_numeric()
    classes = sorted({_tag(ME.BY_NAME[x]) for x in names})
    if len(classes) < 12:
        raise MachineryError("MatGrad: too few differentiable constructor variants (vacuous)")
    return {"viol": viol + v2, "stats": stats, "entries": n, "softabs_entries": n2, "leaves": names, "classes": classes, "recs": recs}
