"""Engine for specs/Matrices.tla (C10, C19)."""

from __future__ import annotations

import copy
import json
import pickle
from concurrent.futures import ThreadPoolExecutor
from fractions import Fraction

import numpy as np

from mbv import tlc
from mbv.tlc import MachineryError

PARAMS = json.loads((tlc.SPECS / "matrix_params.json").read_text())["leaves"]
BY_NAME = {l["name"]: l for l in PARAMS}
PARTNERS = ["I3", "D3", "TL3", "DSQ3", "DSY3", "ORT3", "TF3p", "R32", "R23", "BD3", "PLR3n", "DSQ1", "sI1n"]
UNARY = {"T", "inv", "neg", "scale2", "scalemh", "div4"}
SCALARS = {"neg": -1.0, "scale2": 2.0, "scalemh": -0.5, "div4": 0.25}


def frac(x):
    return Fraction(x) if not isinstance(x, str) else Fraction(x)


def rat_tla(x):
    f = frac(x)
    return f"<<{f.numerator}, {f.denominator}>>" if f >= 0 else f"<<(-{-f.numerator}), {f.denominator}>>"


def mat_tla(m):
    return "<<" + ", ".join("<<" + ", ".join(rat_tla(x) for x in row) + ">>" for row in m) + ">>"


def leaves_module():
    recs = []
    for l in PARAMS:
        f = [f'cls |-> {tlc.tla_str(l["cls"])}']
        if "size" in l:
            f.append(f"size |-> {l['size']}")
        if "scalar" in l:
            f.append(f"scalar |-> {rat_tla(l['scalar'])}")
        if "p1" in l:
            f.append(f"p1 |-> {mat_tla(l['p1'])}")
        if "p2" in l:
            f.append(f"p2 |-> {mat_tla(l['p2'])}")
        if "sign" in l:
            f.append(f"sign |-> {tlc.to_tla(l['sign'])}")
        if "lower" in l:
            f.append(f"lower |-> {tlc.to_tla(l['lower'])}")
        if "subs" in l:
            f.append("subs |-> <<" + ", ".join(tlc.tla_str(s) for s in l["subs"]) + ">>")
        recs.append(f'{l["name"]} |-> [' + ", ".join(f) + "]")
    return ("---- MODULE MatLeaves ----\nEXTENDS Integers, Sequences\nLeaves == [\n " + ",\n ".join(recs) + "\n]\n====\n")


ORDER = ["C"]     # memory layout of the arrays handed to the constructors ("F": column-major, as returned by LAPACK wrappers)


GIVEN = []        # (array handed to a constructor, bytes at that time): "arrays supplied by the caller"


def arr(m):
    a = np.array([[float(frac(x)) for x in row] for row in m], dtype=float)
    a = np.asfortranarray(a) if ORDER[0] == "F" else a
    GIVEN.append((a, a.tobytes()))
    return a


def vec(m):
    """first row of m as a 1-D array of its own (the object handed to the constructor, not a view of something else)"""
    a = np.array([float(frac(x)) for x in m[0]], dtype=float)
    GIVEN.append((a, a.tobytes()))
    return a


def given_arrays_changed():
    return [i for i, (a, b) in enumerate(GIVEN) if a.tobytes() != b]


def build_leaf(name):
    """Construct the real mici object of a leaf (fresh arrays every time)."""
    import mici.matrices as M
    import scipy.linalg as sla

    l = BY_NAME[name]
    c = l["cls"]
    if c == "IdentityMatrix":
        return M.IdentityMatrix(l["size"])
    if c in ("ScaledIdentityMatrix", "PositiveScaledIdentityMatrix"):
        return getattr(M, c)(float(frac(l["scalar"])), l["size"])
    if c in ("DiagonalMatrix", "PositiveDiagonalMatrix"):
        return getattr(M, c)(vec(l["p1"]))
    if c in ("TriangularMatrix", "InverseTriangularMatrix"):
        return getattr(M, c)(arr(l["p1"]), lower=l["lower"])
    if c in ("TriangularFactoredDefiniteMatrix", "TriangularFactoredPositiveDefiniteMatrix") and l.get("factor_obj") == "TriangularMatrix":
        # the factor handed over as a ready-made TriangularMatrix: `factor_is_lower` is documented as ignored then
        # (left at its default: None for the base class, True for the positive definite subclass)
        fobj = M.TriangularMatrix(arr(l["p1"]), lower=l["lower"])
        if c == "TriangularFactoredPositiveDefiniteMatrix":
            return M.TriangularFactoredPositiveDefiniteMatrix(fobj)
        return M.TriangularFactoredDefiniteMatrix(fobj, sign=l["sign"])
    if c == "TriangularFactoredDefiniteMatrix":
        if l.get("factor_obj") == "InverseTriangularMatrix":
            # factor given as an InverseTriangularMatrix whose value is p1
            inv_of = np.linalg.inv(arr(l["p1"]))
            return M.TriangularFactoredDefiniteMatrix(M.InverseTriangularMatrix(inv_of, lower=l["lower"]), sign=l["sign"])
        return M.TriangularFactoredDefiniteMatrix(arr(l["p1"]), sign=l["sign"], factor_is_lower=l["lower"])
    if c == "TriangularFactoredPositiveDefiniteMatrix":
        return M.TriangularFactoredPositiveDefiniteMatrix(arr(l["p1"]), factor_is_lower=l["lower"])
    if c == "DensePositiveDefiniteMatrix":
        if "with_factor" in l:
            # the optional precomputed factor: matrix = factor @ factor.T (lower or upper triangular)
            return M.DensePositiveDefiniteMatrix(arr(l["p1"]), factor=M.TriangularMatrix(arr(l["with_factor"]), lower=l.get("with_factor_lower", True)))
        return M.DensePositiveDefiniteMatrix(arr(l["p1"]))
    if c == "DenseDefiniteMatrix":
        if "with_factor" in l:
            return M.DenseDefiniteMatrix(arr(l["p1"]), factor=M.TriangularMatrix(arr(l["with_factor"]), lower=l.get("with_factor_lower", True)),
                                         is_posdef=l["is_posdef"])
        return M.DenseDefiniteMatrix(arr(l["p1"]), is_posdef=l["is_posdef"])
    if c == "DensePositiveDefiniteProductMatrix":
        return M.DensePositiveDefiniteProductMatrix(arr(l["p1"]), M.PositiveDiagonalMatrix(np.diag(arr(l["p2"])).copy()))
    if c == "DenseSquareMatrix":
        if l.get("with_lu"):
            a = arr(l["p1"])
            return M.DenseSquareMatrix(a, sla.lu_factor(a), False)
        return M.DenseSquareMatrix(arr(l["p1"]))
    if c == "DenseSymmetricMatrix":
        if l.get("with_eig"):
            a = arr(l["p1"])
            w, v = np.linalg.eigh(a)
            return M.DenseSymmetricMatrix(a, v, w)
        return M.DenseSymmetricMatrix(arr(l["p1"]))
    if c == "OrthogonalMatrix":
        return M.OrthogonalMatrix(arr(l["p1"]))
    if c == "ScaledOrthogonalMatrix":
        return M.ScaledOrthogonalMatrix(float(frac(l["scalar"])), arr(l["p1"]))
    if c in ("EigendecomposedSymmetricMatrix", "EigendecomposedPositiveDefiniteMatrix"):
        return getattr(M, c)(arr(l["p1"]), vec(l["p2"]))
    if c in ("SquareBlockDiagonalMatrix", "SymmetricBlockDiagonalMatrix", "PositiveDefiniteBlockDiagonalMatrix",
             "BlockRowMatrix", "BlockColumnMatrix"):
        return getattr(M, c)(tuple(build_leaf(s) for s in l["subs"]))
    if c == "DenseRectangularMatrix":
        return M.DenseRectangularMatrix(arr(l["p1"]))
    if c in ("SquareLowRankUpdateMatrix", "SymmetricLowRankUpdateMatrix", "PositiveDefiniteLowRankUpdateMatrix"):
        u, v, a, k = (build_leaf(s) for s in l["subs"])
        sign = l["sign"]
        cap = None
        if l.get("with_capacitance"):
            # computed from separately built objects so that no lazy cache of the operands is touched
            u_, v_, a_, k_ = (build_leaf(s).array for s in l["subs"])
            ua, va = u_, (v_ if c == "SquareLowRankUpdateMatrix" else u_.T)
            capa = np.linalg.inv(k_) + sign * va @ np.linalg.inv(a_) @ ua
            cap = (M.DenseSquareMatrix(capa) if c == "SquareLowRankUpdateMatrix" else
                   (M.DenseSymmetricMatrix(capa) if c == "SymmetricLowRankUpdateMatrix" else M.DensePositiveDefiniteMatrix(capa)))
        if c == "SquareLowRankUpdateMatrix":
            return M.SquareLowRankUpdateMatrix(u, v, a, k, cap, sign)
        return getattr(M, c)(u, a, k, cap, sign)
    raise MachineryError(f"unknown leaf class {c}")


CFG = """SPECIFICATION Spec
CONSTANTS
  Mode = "{mode}"
  MaxOps = {maxops}
  Partners <- PartnersDef
  StartLeaves <- StartDef
  Attrs <- AttrsDef
INVARIANT InverseIsInverse
INVARIANT PromisedSymmetric
INVARIANT PromisedPosDef
INVARIANT PromisedInvertible
INVARIANT ValueImmutable
INVARIANT PrintProgram
CHECK_DEADLOCK FALSE
"""
ATTRS = ["array", "T", "inv", "sqrt", "eigval", "eigvec", "diagonal", "log_abs_det", "hash", "matvec"]


def run_shard(idx, mode, maxops, starts, partners, name):
    d = tlc.fresh_dir(f"{name}_{idx}")
    tlc.stage_specs(d, ["Matrices.tla", "MatSemantics.tla"])
    (d / "MatLeaves.tla").write_text(leaves_module())
    src = (d / "Matrices.tla").read_text().replace(
        "=============================================================================",
        "PartnersDef == {" + ", ".join(tlc.tla_str(p) for p in partners) + "}\n"
        "StartDef == {" + ", ".join(tlc.tla_str(p) for p in starts) + "}\n"
        "AttrsDef == {" + ", ".join(tlc.tla_str(p) for p in ATTRS) + "}\n"
        "=============================================================================")
    (d / "Matrices.tla").write_text(src)
    return tlc.run_tlc(d, "Matrices", CFG.format(mode=mode, maxops=maxops), workers=2, timeout=1700, cpus=2, heap="3g")


def run_spec(mode, maxops, starts, partners, name, shards=12):
    shards = min(shards, len(starts))
    parts = [starts[i::shards] for i in range(shards)]
    with ThreadPoolExecutor(max_workers=shards) as ex:
        results = list(ex.map(lambda a: run_shard(a[0], mode, maxops, a[1], partners, name), enumerate(parts)))
    progs, gen, dist = [], 0, 0
    for res in results:
        if not res.ok:
            raise MachineryError(f"Matrices.tla violates its own invariant {res.violated}:\n{res.stdout[-2500:]}")
        gen += res.generated
        dist += res.distinct
        progs += [r for r in res.printed if isinstance(r, dict) and "leaf" in r]
    return progs, {"generated": gen, "distinct": dist}


def val_arr(v):
    return np.array([[x[0] / x[1] for x in row] for row in v], dtype=float)


def close(a, b, scale=None):
    a, b = np.asarray(a, dtype=float), np.asarray(b, dtype=float)
    if a.shape != b.shape:
        return False
    s = max(1.0, float(np.max(np.abs(b))) if b.size else 1.0) if scale is None else scale
    return bool(np.all(np.isfinite(a)) and np.max(np.abs(a - b), initial=0.0) <= 1e-9 * s)


def apply_ops(obj, ops):
    for op, arg in ops:
        if op == "T":
            obj = obj.T
        elif op == "inv":
            obj = obj.inv
        elif op == "neg":
            obj = -obj
        elif op == "scale2":
            obj = 2.0 * obj
        elif op == "scalemh":
            obj = obj * -0.5
        elif op == "div4":
            obj = obj / 4.0
        elif op == "matmul_l":
            obj = build_leaf(arg) @ obj
        elif op == "matmul_r":
            obj = obj @ build_leaf(arg)
        else:
            raise MachineryError(f"unknown op {op}")
    return obj


def provides(obj, name):
    """hasattr that only treats AttributeError as absence: any other exception raised by a property means the
    attribute exists and is broken (and is then reported by the comparison that follows)."""
    try:
        getattr(obj, name)
    except AttributeError:
        return False
    except Exception:  # noqa: BLE001
        return True
    return True


def observe(obj, V, facts, Vinv):
    """Compare every observable of the real object with the exact value V. Returns list of (kind, detail)."""
    import mici.matrices as M

    bad = []
    n, m = V.shape
    rng = np.random.default_rng(5)

    def chk(kind, fn, want):
        try:
            got = fn()
        except Exception as e:  # noqa: BLE001
            bad.append((kind, f"raised {type(e).__name__}: {e}"))
            return
        if not close(got, want):
            bad.append((kind, f"got {np.round(np.asarray(got, dtype=float), 9).tolist()} expected {np.round(want, 9).tolist()}"))

    if tuple(obj.shape) != (n, m):
        bad.append(("shape", f"{obj.shape} vs {(n, m)}"))
        return bad
    chk("array", lambda: obj.array, V)
    v = rng.standard_normal(m)
    B = rng.standard_normal((m, 2))
    w = rng.standard_normal(n)
    C = rng.standard_normal((2, n))
    chk("matvec", lambda: obj @ v, V @ v)
    chk("matmat", lambda: obj @ B, V @ B)
    chk("rmatvec", lambda: w @ obj, w @ V)
    chk("rmatmat", lambda: C @ obj, C @ V)
    chk("transpose", lambda: obj.T.array, V.T)
    chk("diagonal", lambda: obj.diagonal, np.diag(V) if n == m else np.diagonal(V))
    if n == m:
        det = np.linalg.det(V)
        if provides(obj, "log_abs_det") and abs(det) > 1e-12:
            chk("log_abs_det", lambda: np.exp(obj.log_abs_det), abs(det))
    if facts["inv"]:
        if not isinstance(obj, M.InvertibleMatrix):
            bad.append(("invertible-not-usable", f"result of class {type(obj).__name__} has no inverse although every factor is invertible"))
        else:
            chk("inv.array", lambda: obj.inv.array, Vinv)
            chk("inv.matvec", lambda: obj.inv @ w, Vinv @ w)
            chk("inv.rmatvec", lambda: v @ obj.inv, v @ Vinv)
            chk("inv.inv", lambda: obj.inv.inv.array, V)
    if facts["sym"]:
        evs = np.linalg.eigvalsh(V)
        chk("eigval", lambda: np.sort(np.asarray(obj.eigval, dtype=float)), evs)

        def eigres():
            lam, vec = np.asarray(obj.eigval, dtype=float), obj.eigvec.array
            return V @ vec - vec * lam[None, :]

        chk("eigvec", eigres, np.zeros((n, n)))
        chk("eigvec-orthonormal", lambda: obj.eigvec.array.T @ obj.eigvec.array, np.eye(n))
    if facts["pd"]:
        if not isinstance(obj, M.PositiveDefiniteMatrix):
            bad.append(("posdef-not-usable", f"result of class {type(obj).__name__} is not usable as a positive definite matrix"))
        else:
            chk("sqrt", lambda: obj.sqrt.array @ obj.sqrt.array.T, V)
            chk("sqrt.matvec", lambda: obj.sqrt @ (obj.sqrt.T @ w), V @ w)
    return bad


def prog_str(p):
    return p["leaf"] + "".join(f".{op}" + (f"({arg})" if arg else "") for op, arg in p["ops"])


def check_programs(progs):
    viol, n = [], 0
    seen = set()
    for p in progs:
        n += 1
        V = val_arr(p["val"])
        Vinv = val_arr(p["inverse"]) if p["inverse"] else None
        rp = {"engine": "matrices", "leaf": p["leaf"], "ops": p["ops"]}
        # the program is executed from a fresh leaf object and (programs with operations only) from a leaf that
        # was already USED: its lazily computed attributes filled, so that derived objects may reuse them
        for used in ((False, "fwd", "rev") if p["ops"] else (False,)):
            try:
                leaf = build_leaf(p["leaf"])
                if used:
                    touch(leaf, reverse=(used == "rev"))
                obj = apply_ops(leaf, p["ops"])
            except Exception as e:  # noqa: BLE001
                last = p["ops"][-1][0] if p["ops"] else "construct"
                sig = f"C10:{BY_NAME[p['leaf']]['cls']}:{last}:exception:{type(e).__name__}"
                if sig not in seen:
                    seen.add(sig)
                    viol.append(("C10", sig, f"{prog_str(p)}{' (leaf used before)' if used else ''} raised {type(e).__name__}: {e}", dict(rp, used=used)))
                continue
            for kind, detail in observe(obj, V, p["facts"], Vinv):
                opsig = ">".join(op for op, _ in p["ops"][-2:]) or "leaf"
                sig = (f"C10:{BY_NAME[p['leaf']]['cls']}{'(sign=-1)' if BY_NAME[p['leaf']].get('sign') == -1 else ''}:{opsig}:{kind}"
                       + (":leaf-used-before" if used else ""))
                if sig not in seen and sig.replace(":leaf-used-before", "") not in seen:
                    seen.add(sig)
                    viol.append(("C10", sig, f"{prog_str(p)}{' (lazy attributes of the leaf read before)' if used else ''} "
                                 f"[{type(obj).__name__}]: {kind}: {detail}", dict(rp, used=used)))
    return viol, n


def touch(obj, reverse=False):
    """Read every lazily computed attribute an object offers (fills its caches), in one of two orders (what a
    derived object finds cached depends on what was computed first)."""
    order = ("array", "T", "inv", "sqrt", "eigval", "eigvec", "diagonal", "log_abs_det")
    for a in (order[::-1] if reverse else order):
        try:
            v = getattr(obj, a)
            if a in ("inv", "sqrt", "T"):
                _ = v.array
        except Exception:  # noqa: BLE001
            pass
    try:
        hash(obj)
    except Exception:  # noqa: BLE001
        pass


# --------------------------------------------------------------------------------------
# C19: immutability
# --------------------------------------------------------------------------------------
def snapshot(obj, depth=0):
    """numerical content of everything the object holds right now (ndarrays, nested matrices)"""
    import mici.matrices as M

    out = {}
    for k, v in vars(obj).items():
        if isinstance(v, np.ndarray):
            out[k] = v.tobytes()
        elif isinstance(v, M.Matrix) and depth < 3 and v is not obj:
            out[k] = snapshot(v, depth + 1)
        elif isinstance(v, tuple) and v and all(isinstance(x, (M.Matrix, np.ndarray)) for x in v) and depth < 3:
            out[k] = tuple(snapshot(x, depth + 1) if isinstance(x, M.Matrix) else x.tobytes() for x in v)
    return out


def changed_keys(before, after, prefix=""):
    """keys present BEFORE whose numerical content differs afterwards (lazily filled caches are new
    keys and are ignored: materialising a cache is not a change of content)"""
    out = []
    for k, b in before.items():
        a = after.get(k)
        if isinstance(b, dict):
            if not isinstance(a, dict):
                out.append(prefix + k)
            else:
                out += changed_keys(b, a, prefix + k + ".")
        elif isinstance(b, tuple):
            if not isinstance(a, tuple) or len(a) != len(b):
                out.append(prefix + k)
            else:
                for i, (bb, aa) in enumerate(zip(b, a)):
                    if isinstance(bb, dict):
                        out += changed_keys(bb, aa if isinstance(aa, dict) else {}, f"{prefix}{k}[{i}].")
                    elif bb != aa:
                        out.append(f"{prefix}{k}[{i}]")
        elif a != b:
            out.append(prefix + k)
    return out


def param_arrays(obj, depth=0):
    """ndarrays held right after construction (parameters or derived from them); index helpers excluded"""
    import mici.matrices as M

    out = []
    for k, v in vars(obj).items():
        if k == "_splits":
            continue
        if isinstance(v, np.ndarray):
            out.append((k, v))
        elif isinstance(v, tuple) and v and all(isinstance(x, np.ndarray) for x in v):
            out += [(f"{k}[{i}]", x) for i, x in enumerate(v)]
        elif isinstance(v, M.Matrix) and depth < 2 and v is not obj:
            out += [(f"{k}.{kk}", a) for kk, a in param_arrays(v, depth + 1)]
    return out


def read_attr(obj, a, probe):
    if a == "array":
        return np.array(obj.array)
    if a == "T":
        return np.array(obj.T.array)
    if a == "inv":
        return np.array(obj.inv.array)
    if a == "sqrt":
        return np.array(obj.sqrt.array)
    if a == "eigval":
        return np.array(obj.eigval, dtype=float)
    if a == "eigvec":
        return np.array(obj.eigvec.array)
    if a == "diagonal":
        return np.array(obj.diagonal)
    if a == "log_abs_det":
        return np.array(obj.log_abs_det)
    if a == "hash":
        return np.array(hash(obj))
    if a == "matvec":
        return np.array(obj @ probe)
    raise MachineryError(a)


def check_access_orders(progs):
    """For every leaf: every exported access order shows the same values as a fresh object, and the
    parameters are byte-identical afterwards."""
    viol, n = [], 0
    seen = set()
    ref_cache = {}
    for p in progs:
        leaf = p["leaf"]
        order = [op for op, _ in p["ops"]]
        n += 1
        V = val_arr(p["val"])
        probe = np.arange(1.0, V.shape[1] + 1.0)
        if leaf not in ref_cache:
            ref = {}
            for a in set(ATTRS):
                try:
                    ref[a] = read_attr(build_leaf(leaf), a, probe)   # fresh object per attribute
                except Exception:  # noqa: BLE001
                    ref[a] = None
            ref_cache[leaf] = ref
        obj = build_leaf(leaf)
        before = snapshot(obj)
        cls = BY_NAME[leaf]["cls"]
        rp = {"engine": "matrices-access", "leaf": leaf, "order": order}
        first = {}
        for i, a in enumerate(order + [x for x in dict.fromkeys(order)]):
            again = i >= len(order)
            try:
                got = read_attr(obj, a, probe)
            except Exception as e:  # noqa: BLE001
                if again:
                    continue
                if ref_cache[leaf][a] is not None:
                    sig = f"C19:{cls}:{a}:raises-after:{'>'.join(order[:i]) or 'nothing'}"
                    if sig not in seen:
                        seen.add(sig)
                        viol.append(("C19", sig, f"{leaf}: reading {a} after {order[:i]} raised {type(e).__name__}: {e} (fine on a fresh object)", rp))
                continue
            if a not in first:
                first[a] = got
            elif not (got.shape == first[a].shape and got.tobytes() == first[a].tobytes()):
                # repeated evaluation of a property on the same object: identical, whatever was computed in between
                sig = f"C19:{cls}:{a}:repeated-read-differs"
                if sig not in seen:
                    seen.add(sig)
                    viol.append(("C19", sig, f"{leaf}: reading {a} again after {order} gives a result that is not identical to the first "
                                 f"read (max difference {float(np.max(np.abs(got - first[a]))) if got.shape == first[a].shape else 'shape'})", rp))
            if again:
                continue
            want = ref_cache[leaf][a]
            if want is not None and not (got.shape == want.shape and np.allclose(got, want, rtol=1e-12, atol=1e-13)):
                sig = f"C19:{cls}:{a}:depends-on-access-order"
                if sig not in seen:
                    seen.add(sig)
                    viol.append(("C19", sig, f"{leaf}: {a} read after {order[:i]} differs from {a} of a fresh object", rp))
        for k in changed_keys(before, snapshot(obj)):
            sig = f"C19:{cls}:parameter-changed:{k}"
            if sig not in seen:
                seen.add(sig)
                viol.append(("C19", sig, f"{leaf}: numerical content of {k} changed after accesses {order}", rp))
    return viol, n


def check_value_semantics():
    """Operand / caller arrays untouched by operations, parameters read-only, ==/hash/copies."""
    viol, n = [], 0

    def add(sig, what, rp):
        viol.append(("C19", sig, what, rp))

    variants = [(l, "C") for l in PARAMS] + [(l, "F") for l in PARAMS if "p1" in l and len(l["p1"]) > 1 and len(l["p1"][0]) > 1]
    for l, order in variants:
        ORDER[0] = order
        name, cls = l["name"], l["cls"]
        rp = {"engine": "matrices-value", "leaf": name, "order": order}
        if order == "F":
            cls = cls + "[column-major]"
        a, b = build_leaf(name), build_leaf(name)
        n += 1
        try:
            if not (a == b):
                add(f"C19:{cls}:equal-parameters-not-equal", f"{name}: two objects with equal parameters compare unequal", rp)
            if hash(a) != hash(b):
                add(f"C19:{cls}:equal-parameters-hash-differs", f"{name}: equal objects hash differently", rp)
            if not np.array_equal(a.array, b.array):
                add(f"C19:{cls}:equal-but-different-arrays", f"{name}: equal objects have different dense arrays", rp)
        except Exception as e:  # noqa: BLE001
            add(f"C19:{cls}:eq-hash-exception:{type(e).__name__}", f"{name}: ==/hash raised {e}", rp)
        if order == "F":
            # the same numbers handed over row-major: memory layout is not a parameter
            ORDER[0] = "C"
            a_c = build_leaf(name)
            ORDER[0] = "F"
            try:
                if not (a == a_c) or not (a_c == a):
                    add(f"C19:{cls}:equal-parameters-not-equal:layout", f"{name}: objects built from the same numbers in row-major and "
                        f"column-major arrays compare unequal", rp)
                elif hash(a) != hash(a_c) or len({a, a_c}) != 1:
                    add(f"C19:{cls}:equal-parameters-hash-differs:layout", f"{name}: objects built from the same numbers in row-major and "
                        f"column-major arrays compare equal but hash differently (a set keeps both)", rp)
            except Exception as e:  # noqa: BLE001
                add(f"C19:{cls}:eq-hash-exception:{type(e).__name__}", f"{name}: ==/hash across layouts raised {e}", rp)
        for how, cp in (("copy", copy.copy), ("deepcopy", copy.deepcopy), ("pickle", lambda o: pickle.loads(pickle.dumps(o)))):
            try:
                c2 = cp(a)
                if not (c2 == a) or hash(c2) != hash(a) or not np.array_equal(np.asarray(c2.array), np.asarray(a.array)):
                    add(f"C19:{cls}:{how}-not-equal", f"{name}: {how} does not equal the original", rp)
            except Exception as e:  # noqa: BLE001
                add(f"C19:{cls}:{how}-exception:{type(e).__name__}", f"{name}: {how} raised {e}", rp)
        # a different-valued object of the same class must not compare equal
        other = (2.0 * build_leaf(name))
        try:
            if type(other) is type(a) and (other == a) and not np.array_equal(other.array, a.array):
                add(f"C19:{cls}:unequal-values-compare-equal", f"{name}: 2*{name} compares equal to {name}", rp)
        except Exception:  # noqa: BLE001
            pass
        # parameters cannot be modified in place
        for k, pa in param_arrays(build_leaf(name)):
            if pa.flags.writeable and pa.size:
                add(f"C19:{cls}:parameter-writable:{k}", f"{name}: array {k} held since construction can be modified in place", rp)
        # ... nor through the reference the caller still holds: a later in-place write to an array that was handed
        # to the constructor either fails (the array was frozen) or does not reach the matrix (it was copied)
        GIVEN.clear()
        o2 = build_leaf(name)
        try:
            probe = np.arange(1.0, o2.shape[1] + 1.0)
            y0 = np.array(o2 @ probe)
            wrote = []
            for idx, (arr, _) in enumerate(GIVEN):
                if arr.size and arr.dtype.kind == "f":
                    try:
                        arr += 1.0
                        wrote.append(idx)
                    except ValueError:
                        pass  # read-only: fine
            if wrote and not np.array_equal(np.array(o2 @ probe), y0):
                add(f"C19:{cls}:parameter-modified-through-caller-array",
                    f"{name}: an in-place write to the array the caller passed to the constructor (argument array #{wrote[0]}) succeeded "
                    f"and changed the matrix (its product with a fixed vector differs)", rp)
        except Exception as e:  # noqa: BLE001
            add(f"C19:{cls}:caller-write-probe-exception:{type(e).__name__}", f"{name}: product after a caller-side write raised {e}", rp)
        # operations leave operands and caller arrays untouched
        GIVEN.clear()
        obj = build_leaf(name)
        if given_arrays_changed():
            add(f"C19:{cls}:constructor:caller-array-modified", f"{name}: the constructor modified an array supplied by the caller", rp)
        before = snapshot(obj)
        m = obj.shape[1]
        v = np.arange(1.0, m + 1.0)
        Bm = np.arange(1.0, 2 * m + 1.0).reshape(m, 2)
        w = np.arange(1.0, obj.shape[0] + 1.0)
        vb, Bb, wb = v.tobytes(), Bm.tobytes(), w.tobytes()
        opsdone = []
        for opname, fn in (("matvec", lambda: obj @ v), ("matmat", lambda: obj @ Bm), ("rmatvec", lambda: w @ obj),
                           ("scale", lambda: 3.0 * obj), ("neg", lambda: -obj), ("div", lambda: obj / 2.0),
                           ("T", lambda: obj.T), ("T.matvec", lambda: obj.T @ w), ("array", lambda: obj.array),
                           ("inv", lambda: obj.inv @ w if provides(obj, "inv") else None),
                           ("sqrt", lambda: obj.sqrt @ v if provides(obj, "sqrt") else None),
                           ("2*inv", lambda: (2.0 * obj).inv.array if provides(obj, "inv") else None),
                           ("prod", lambda: (obj @ obj.T).array)):
            try:
                fn()
            except Exception:  # noqa: BLE001
                continue
            opsdone.append(opname)
            if (v.tobytes(), Bm.tobytes(), w.tobytes()) != (vb, Bb, wb) or given_arrays_changed():
                add(f"C19:{cls}:{opname}:caller-array-modified", f"{name}: {opname} modified an array supplied by the caller", rp)
                break
            changed = changed_keys(before, snapshot(obj))
            if changed:
                add(f"C19:{cls}:{opname}:operand-modified:{changed[0]}", f"{name}: {opname} changed the operand's {changed}", rp)
                break
    ORDER[0] = "C"
    v2, n2 = check_equality_vs_hash()
    return viol + v2, n + n2


def check_equality_vs_hash():
    """`==` must not depend on whether hashes were requested first, and equality implies equal dense arrays --
    also for objects whose parameter hashes collide (CPython: hash(-1) == hash(-2), hash(1.0) == hash(2.0**61))."""
    import mici.matrices as M

    viol, n = [], 0

    def pairs():
        for k in (1, 2, 3):
            yield f"-I{k} vs -2*I{k}", (lambda k=k: -M.IdentityMatrix(k)), (lambda k=k: -2 * M.IdentityMatrix(k))
            yield f"I{k}*1.0 vs I{k}*2**61", (lambda k=k: 1.0 * M.IdentityMatrix(k)), (lambda k=k: 2.0**61 * M.IdentityMatrix(k))
        d = lambda: M.DiagonalMatrix(np.array([2.0]))  # noqa: E731
        yield "blockdiag(-I2, D) vs blockdiag(-2*I2, D)", (lambda: M.SymmetricBlockDiagonalMatrix((-M.IdentityMatrix(2), d()))), \
            (lambda: M.SymmetricBlockDiagonalMatrix((-2 * M.IdentityMatrix(2), d())))
        f = lambda: M.DenseRectangularMatrix(np.array([[1.0], [1.0], [0.0]]))  # noqa: E731
        yield "lowrank(F, -I3) vs lowrank(F, -2*I3)", (lambda: M.SymmetricLowRankUpdateMatrix(f(), -M.IdentityMatrix(3))), \
            (lambda: M.SymmetricLowRankUpdateMatrix(f(), -2 * M.IdentityMatrix(3)))
        dn = lambda: M.DenseSquareMatrix(np.array([[1.0, 2.0], [0.5, 3.0]]))  # noqa: E731
        yield "(-I2)@A vs (-2*I2)@A", (lambda: M.MatrixProduct((-M.IdentityMatrix(2), dn()))), (lambda: M.MatrixProduct((-2 * M.IdentityMatrix(2), dn())))
        # every pair of distinct leaves of the same class and shape
        by = {}
        for l in PARAMS:
            by.setdefault(l["cls"], []).append(l["name"])
        for cls, names in by.items():
            for i, x in enumerate(names):
                for y in names[i + 1:]:
                    yield f"{x} vs {y}", (lambda x=x: build_leaf(x)), (lambda y=y: build_leaf(y))

    for label, mk_a, mk_b in pairs():
        rp = {"engine": "matrices-eqhash", "pair": label}
        try:
            a, b = mk_a(), mk_b()
            if a.shape != b.shape:
                continue
            n += 1
            cls = type(a).__name__
            same = bool(np.array_equal(np.asarray(a.array), np.asarray(b.array)))
            eq_fresh = bool(a == b)
            hash(a), hash(b)
            eq_hashed = bool(a == b)
            in_set = len({a, b})
        except Exception as e:  # noqa: BLE001
            viol.append(("C19", f"C19:eq-hash-exception:{type(e).__name__}", f"{label}: ==/hash raised {e}", rp))
            continue
        if eq_fresh != eq_hashed:
            viol.append(("C19", f"C19:{cls}:equality-depends-on-hash-requests",
                         f"{label}: a == b is {eq_fresh} before and {eq_hashed} after both hashes were requested", rp))
        if (eq_fresh or eq_hashed) and not same:
            viol.append(("C19", f"C19:{cls}:unequal-values-compare-equal", f"{label}: compare equal but have different dense arrays", rp))
        if in_set == 1 and not same:
            viol.append(("C19", f"C19:{cls}:distinct-values-merged-in-set", f"{label}: a set keeps only one of two matrices with different values", rp))
    return viol, n


def implicit_size_checks():
    """Implicit-size identity / scaled identity: every observable that does not need the size."""
    import mici.matrices as M

    viol, n = [], 0
    v = np.array([1.0, -2.0, 0.5, 3.0])
    for label, mk, s in (("IdentityMatrix()", lambda: M.IdentityMatrix(), 1.0),
                         ("PositiveScaledIdentityMatrix(2.5)", lambda: M.PositiveScaledIdentityMatrix(2.5), 2.5),
                         ("ScaledIdentityMatrix(-0.5)", lambda: M.ScaledIdentityMatrix(-0.5), -0.5)):
        obj = mk()
        rp = {"engine": "matrices-implicit", "label": label}
        for kind, fn, want in (("matvec", lambda: obj @ v, s * v), ("rmatvec", lambda: v @ obj, s * v),
                               ("inv.matvec", lambda: obj.inv @ v, v / s), ("scale.matvec", lambda: (2.0 * obj) @ v, 2 * s * v),
                               ("eigval-broadcast", lambda: obj.eigval * v, s * v),
                               ("diagonal-broadcast", lambda: obj.diagonal * v, s * v),
                               ("eigvec.matvec", lambda: obj.eigvec @ v, v)):
            n += 1
            try:
                got = fn()
                if not close(got, want):
                    viol.append(("C10", f"C10:implicit-size:{label.split('(')[0]}:{kind}", f"{label}: {kind} = {got}, expected {want}", rp))
            except Exception as e:  # noqa: BLE001
                viol.append(("C10", f"C10:implicit-size:{label.split('(')[0]}:{kind}:exception:{type(e).__name__}",
                             f"{label}: {kind} raised {type(e).__name__}: {e}", rp))
        if s > 0:
            n += 1
            try:
                got = obj.sqrt @ (obj.sqrt.T @ v)
                if not close(got, s * v):
                    viol.append(("C10", f"C10:implicit-size:{label.split('(')[0]}:sqrt", f"{label}: sqrt @ sqrt.T @ v = {got}", rp))
            except Exception as e:  # noqa: BLE001
                viol.append(("C10", f"C10:implicit-size:{label.split('(')[0]}:sqrt:exception:{type(e).__name__}", f"{label}: sqrt raised {e}", rp))
    return viol, n


def large_scaled_checks():
    """Sizes and scalings beyond the exact model (C10: 'all sizes ... all well-conditioned parameter values'):
    well-conditioned matrices of size 40 whose determinant lies far outside the double range (entries of order
    1e-18 and 1e18).  log|det|, products and solves are compared with dense NumPy algebra.  Numerical (1e-8), not
    decided by the specification."""
    import mici.matrices as M

    viol, n = [], 0
    size = 40
    rng = np.random.default_rng(4)
    g = rng.standard_normal((size, size))
    sym = np.eye(size) + 0.2 * (g + g.T) / np.sqrt(size)          # well conditioned (cond < 10)
    q, _ = np.linalg.qr(rng.standard_normal((size, size)))
    u = rng.standard_normal((size, 2)) / np.sqrt(size)
    for scale in (1e-18, 1.0, 1e18):
        a = scale * sym
        chol = np.linalg.cholesky(a)
        gen = scale * (np.eye(size) + 0.3 * g / np.sqrt(size))
        ev = scale * np.linspace(0.5, 2.0, size)
        cases = {
            "TriangularMatrix(lower)": (lambda: M.TriangularMatrix(chol.copy(), lower=True), chol),
            "TriangularMatrix(upper)": (lambda: M.TriangularMatrix(chol.T.copy(), lower=False), chol.T),
            "InverseTriangularMatrix": (lambda: M.InverseTriangularMatrix(chol.copy(), lower=True), np.linalg.inv(chol)),
            "TriangularFactoredPositiveDefiniteMatrix": (lambda: M.TriangularFactoredPositiveDefiniteMatrix(chol.copy(), factor_is_lower=True), a),
            "TriangularFactoredDefiniteMatrix(sign=-1)": (lambda: M.TriangularFactoredDefiniteMatrix(chol.copy(), sign=-1, factor_is_lower=True), -a),
            "DensePositiveDefiniteMatrix": (lambda: M.DensePositiveDefiniteMatrix(a.copy()), a),
            "DenseDefiniteMatrix(negative)": (lambda: M.DenseDefiniteMatrix(-a, is_posdef=False), -a),
            "DenseSymmetricMatrix": (lambda: M.DenseSymmetricMatrix(a.copy()), a),
            "DenseSquareMatrix": (lambda: M.DenseSquareMatrix(gen.copy()), gen),
            "EigendecomposedPositiveDefiniteMatrix": (lambda: M.EigendecomposedPositiveDefiniteMatrix(q.copy(), ev.copy()), q @ np.diag(ev) @ q.T),
            "PositiveDiagonalMatrix": (lambda: M.PositiveDiagonalMatrix(ev.copy()), np.diag(ev)),
            "PositiveScaledIdentityMatrix": (lambda: M.PositiveScaledIdentityMatrix(scale, size), scale * np.eye(size)),
            "ScaledOrthogonalMatrix": (lambda: M.ScaledOrthogonalMatrix(scale, q.copy()), scale * q),
            "PositiveDefiniteLowRankUpdateMatrix": (
                lambda: M.PositiveDefiniteLowRankUpdateMatrix(M.DenseRectangularMatrix(np.sqrt(scale) * u), M.DensePositiveDefiniteMatrix(a.copy()),
                                                              M.DensePositiveDefiniteMatrix(np.array([[1.5, 0.2], [0.2, 0.7]]))),
                a + scale * u @ np.array([[1.5, 0.2], [0.2, 0.7]]) @ u.T),
            "PositiveDefiniteBlockDiagonalMatrix": (
                lambda: M.PositiveDefiniteBlockDiagonalMatrix((M.DensePositiveDefiniteMatrix(a.copy()), M.PositiveDiagonalMatrix(ev.copy()))),
                np.block([[a, np.zeros((size, size))], [np.zeros((size, size)), np.diag(ev)]])),
        }
        for label, (mk, dense) in cases.items():
            k = dense.shape[0]
            v = np.linspace(-1.0, 1.0, k)
            want_ld = float(np.linalg.slogdet(dense)[1])
            derived = {"": lambda o: (o, dense, want_ld),
                       ".inv": lambda o: (o.inv, np.linalg.inv(dense), -want_ld),
                       ".T": lambda o: (o.T, dense.T, want_ld),
                       "*(-2)": lambda o: (-2.0 * o, -2.0 * dense, want_ld + k * np.log(2.0)),
                       ".sqrt": lambda o: (o.sqrt, None, 0.5 * want_ld)}
            for dlabel, der in derived.items():
                rp = {"engine": "matrices-large", "case": label, "derived": dlabel, "scale": scale}
                try:
                    base = mk()
                    if dlabel == ".sqrt" and not isinstance(base, M.PositiveDefiniteMatrix):
                        continue
                    obj, dn, ld = der(base)
                except Exception as e:  # noqa: BLE001
                    viol.append(("C10", f"C10:large:{label}{dlabel}:exception:{type(e).__name__}", f"{label}{dlabel} (size {k}, scale {scale:g}): {e!r}", rp))
                    continue
                n += 1
                try:
                    got = float(obj.log_abs_det)
                    if not (np.isfinite(got) and abs(got - ld) <= 1e-8 * max(1.0, abs(ld))):
                        viol.append(("C10", f"C10:large:{label}{dlabel}:log_abs_det",
                                     f"{label}{dlabel} (size {k}, entries of order {scale:g}, condition number < 10): log_abs_det is {got}, "
                                     f"dense slogdet gives {ld}", rp))
                except AttributeError:
                    pass
                except Exception as e:  # noqa: BLE001
                    viol.append(("C10", f"C10:large:{label}{dlabel}:log_abs_det:exception:{type(e).__name__}", f"{label}{dlabel}: log_abs_det raised {e!r}", rp))
                if dn is not None:
                    try:
                        mv = obj @ v
                        if not np.allclose(mv, dn @ v, rtol=1e-8, atol=1e-8 * float(np.max(np.abs(dn @ v)))):
                            viol.append(("C10", f"C10:large:{label}{dlabel}:matvec", f"{label}{dlabel} (size {k}, scale {scale:g}): product differs from the dense product", rp))
                    except Exception as e:  # noqa: BLE001
                        viol.append(("C10", f"C10:large:{label}{dlabel}:matvec:exception:{type(e).__name__}", f"{label}{dlabel}: product raised {e!r}", rp))
    return viol, n


def softabs_checks():
    """SoftAbs-regularised matrices have no rational semantics: bound through algebraic identities."""
    import mici.matrices as M

    viol, n = [], 0
    S = np.array([[0.5, 1.0, 0.0], [1.0, -1.5, 0.5], [0.0, 0.5, 2.0]])
    for coeff in (0.5, 1.5, 10.0):
        w, Vv = np.linalg.eigh(S)
        want = Vv @ np.diag(w / np.tanh(coeff * w)) @ Vv.T
        for ops in ([], [("inv", "")], [("scale2", "")], [("inv", ""), ("div4", "")], [("T", ""), ("inv", ""), ("inv", "")]):
            n += 1
            obj = M.SoftAbsRegularizedPositiveDefiniteMatrix(S.copy(), coeff)
            V = want
            for op, _ in ops:
                V = {"inv": np.linalg.inv, "scale2": lambda x: 2 * x, "div4": lambda x: x / 4, "T": lambda x: x.T}[op](V)
            try:
                res = apply_ops(obj, ops)
            except Exception as e:  # noqa: BLE001
                viol.append(("C10", f"C10:SoftAbs:{'>'.join(o for o, _ in ops)}:exception", f"SoftAbs({coeff}) {ops} raised {e}", {"engine": "matrices-softabs"}))
                continue
            for kind, detail in observe(res, V, {"inv": True, "sym": True, "pd": True}, np.linalg.inv(V)):
                viol.append(("C10", f"C10:SoftAbsRegularizedPositiveDefiniteMatrix:{'>'.join(o for o, _ in ops) or 'leaf'}:{kind}",
                             f"SoftAbs(coeff={coeff}){ops}: {kind}: {detail}", {"engine": "matrices-softabs"}))
    return viol, n
