"""Matrix zoo: mici matrix objects built from well-conditioned *rational* parameters together
with their exact dense value (numpy float arrays computed independently of mici)."""

from __future__ import annotations

import numpy as np

BASE3 = np.array([[2.0, 0.5, 0.25], [0.5, 1.5, -0.5], [0.25, -0.5, 1.75]])
LOW3 = np.array([[1.5, 0.0, 0.0], [0.5, 1.0, 0.0], [-0.25, 0.75, 1.25]])
SQ3 = np.array([[1.0, 2.0, 0.5], [-0.5, 1.5, 1.0], [0.25, -1.0, 2.0]])
U32 = np.array([[1.0, 0.5], [-0.5, 1.0], [0.25, 0.75]])
K2 = np.array([[1.5, 0.25], [0.25, 0.75]])


def rot(n):
    """an exactly orthogonal matrix with rational entries"""
    if n == 1:
        return np.array([[1.0]])
    if n == 2:
        return np.array([[0.6, -0.8], [0.8, 0.6]])
    return np.array([[0.6, -0.8, 0.0], [0.8, 0.6, 0.0], [0.0, 0.0, 1.0]]) @ np.array(
        [[1.0, 0.0, 0.0], [0.0, 0.28, -0.96], [0.0, 0.96, 0.28]])


def _base_metrics(n):
    import mici.matrices as M

    A = BASE3[:n, :n]
    L = LOW3[:n, :n]
    Q = rot(n)
    ev = np.array([0.5, 2.0, 1.25])[:n]
    out = {
        "identity": (M.IdentityMatrix(n), np.eye(n)),
        "scaled": (M.PositiveScaledIdentityMatrix(1.75, n), 1.75 * np.eye(n)),
        "diag": (M.PositiveDiagonalMatrix(np.array([1.5, 0.75, 2.0])[:n]), np.diag(np.array([1.5, 0.75, 2.0])[:n])),
        "dense": (M.DensePositiveDefiniteMatrix(A.copy()), A),
        "tri-lower": (M.TriangularFactoredPositiveDefiniteMatrix(L.copy(), factor_is_lower=True), L @ L.T),
        "tri-upper": (M.TriangularFactoredPositiveDefiniteMatrix(L.T.copy(), factor_is_lower=False), L.T @ L),
        "eig": (M.EigendecomposedPositiveDefiniteMatrix(Q.copy(), ev.copy()), Q @ np.diag(ev) @ Q.T),
    }
    if n >= 2:
        # factor arrays with junk in the unused triangle (e.g. raw LAPACK potrf output): documented as ignored
        junk_lo = L + np.triu(np.full((n, n), 0.7), 1)
        junk_up = L.T + np.tril(np.full((n, n), -0.4), -1)
        out["tri-lower-full"] = (M.TriangularFactoredPositiveDefiniteMatrix(junk_lo, factor_is_lower=True), L @ L.T)
        out["tri-upper-full"] = (M.TriangularFactoredPositiveDefiniteMatrix(junk_up, factor_is_lower=False), L.T @ L)
    if n >= 2:
        S = np.array([[0.5, 1.0, 0.0], [1.0, -1.5, 0.5], [0.0, 0.5, 2.0]])[:n, :n]
        w, V = np.linalg.eigh(S)
        out["softabs"] = (M.SoftAbsRegularizedPositiveDefiniteMatrix(S.copy(), 1.5),
                          V @ np.diag(w / np.tanh(1.5 * w)) @ V.T)
    if n == 3:
        out["block"] = (M.PositiveDefiniteBlockDiagonalMatrix(
            (M.DensePositiveDefiniteMatrix(BASE3[:2, :2].copy()), M.PositiveScaledIdentityMatrix(1.25, 1))),
            np.block([[BASE3[:2, :2], np.zeros((2, 1))], [np.zeros((1, 2)), 1.25 * np.eye(1)]]))
        out["lowrank+"] = (M.PositiveDefiniteLowRankUpdateMatrix(
            M.DenseRectangularMatrix(U32.copy()), M.PositiveDiagonalMatrix(np.array([1.5, 0.75, 2.0])),
            M.DensePositiveDefiniteMatrix(K2.copy())), np.diag([1.5, 0.75, 2.0]) + U32 @ K2 @ U32.T)
        small = 0.25 * U32
        out["lowrank-"] = (M.PositiveDefiniteLowRankUpdateMatrix(
            M.DenseRectangularMatrix(small.copy()), M.DensePositiveDefiniteMatrix(A.copy()),
            M.DensePositiveDefiniteMatrix(K2.copy()), sign=-1), A - small @ K2 @ small.T)
        R = np.array([[1.0, 0.5, -0.25, 0.0], [0.0, 1.0, 0.5, 0.75], [0.5, 0.0, 1.0, -0.5]])
        out["product"] = (M.DensePositiveDefiniteProductMatrix(R.copy(), M.PositiveDiagonalMatrix(np.array([1.0, 2.0, 0.5, 1.5]))),
                          R @ np.diag([1.0, 2.0, 0.5, 1.5]) @ R.T)
    return out


def pos_def_metrics(n):
    """name -> (mici PositiveDefiniteMatrix, exact dense array) for dimension n in {1, 2, 3}"""
    out = _base_metrics(n)
    # the inverse of every positive definite matrix is a positive definite matrix too (this is what
    # the metric adapters install: DensePositiveDefiniteMatrix(cov).inv, PositiveDiagonalMatrix(var).inv)
    for name, (mat, dense) in list(out.items()):
        if name not in ("identity",):
            out[name + ".inv"] = (pos_def_metrics_single(n, name).inv, np.linalg.inv(dense))
    # metrics DERIVED from an object that was already used (its lazy factorisations are filled): a rescaled
    # metric after momenta were drawn with the original one, the inverse after a draw, ...
    for name, (mat, dense) in list(out.items()):
        if name == "identity" or name.endswith(".inv"):
            continue
        used = pos_def_metrics_single(n, name)
        _ = used.sqrt @ np.ones(n), used.inv @ np.ones(n)          # fill the lazily computed factors
        out[name + "*4(used)"] = (4.0 * used, 4.0 * dense)
        used2 = pos_def_metrics_single(n, name)
        _ = used2.sqrt @ np.ones(n)
        out[name + "/4(used)"] = (used2 / 4.0, dense / 4.0)
        used3 = pos_def_metrics_single(n, name)
        _ = used3.sqrt @ np.ones(n), float(used3.log_abs_det)
        out[name + ".inv(used)"] = (used3.inv, np.linalg.inv(dense))
    return out


def pos_def_metrics_single(n, name):
    return _base_metrics(n)[name][0]
