"""Engine for specs/Momentum.tla (C08)."""

from __future__ import annotations

import math
from fractions import Fraction

import numpy as np

from mbv import matzoo, tlc, zoo
from mbv.tlc import MachineryError

CFG = """SPECIFICATION Spec
CONSTANTS
  Coeffs <- CoeffsDef
  MaxSteps = {maxsteps}
INVARIANT CoeffsPythagorean
INVARIANT LawInvariant
INVARIANT PrintLeaf
CHECK_DEADLOCK FALSE
"""
COEFFS = [((0, 1), (1, 1)), ((3, 5), (4, 5)), ((4, 5), (3, 5)), ((5, 13), (12, 13)), ((1, 1), (0, 1))]


def run_spec(tier, name):
    d = tlc.fresh_dir(name)
    tlc.stage_specs(d, ["Momentum.tla"])
    src = (d / "Momentum.tla").read_text().replace(
        "=============================================================================",
        "CoeffsDef == {" + ", ".join(f"<<<<{c[0]}, {c[1]}>>, <<{s[0]}, {s[1]}>>>>" for c, s in COEFFS) + "}\n"
        "=============================================================================")
    (d / "Momentum.tla").write_text(src)
    res = tlc.run_tlc(d, "Momentum", CFG.format(maxsteps=2 if tier == "quick" else 3), workers=2, timeout=600, cpus=2)
    if not res.ok:
        raise MachineryError(f"Momentum.tla violates its own invariant {res.violated}:\n{res.stdout[-2000:]}")
    return [r for r in res.printed if isinstance(r, dict) and "hist" in r], res


class ScriptRng:
    """returns the given vectors as standard normal draws, counting calls"""

    def __init__(self, vectors):
        self.vectors, self.n = list(vectors), 0

    def _next(self, shape):
        if self.n >= len(self.vectors):
            raise MachineryError("scripted generator exhausted")
        v = self.vectors[self.n]
        self.n += 1
        return np.array(v, dtype=float).reshape(shape)

    def standard_normal(self, size=None, **k):
        return self._next(size if size is not None else ())

    def normal(self, loc=0.0, scale=1.0, size=None, **k):
        return self._next(size if size is not None else ())


def system_cases(tier):
    """(label, system, state-without-momentum, expected covariance of a fresh momentum)"""
    import mici.systems as S
    from mici.states import ChainState

    cases = []
    n = 3
    model = zoo.Model(n)
    pos = np.array([0.3, -0.2, 0.5])
    for name, (mat, dense) in matzoo.pos_def_metrics(n).items():
        sysm = S.EuclideanMetricSystem(model.neg_log_dens, metric=mat, grad_neg_log_dens=model.grad_neg_log_dens)
        cases.append((f"Euclidean[{name}]", sysm, pos, dense))
    cases.append(("Euclidean[implicit-identity]", S.EuclideanMetricSystem(model.neg_log_dens, grad_neg_log_dens=model.grad_neg_log_dens), pos, np.eye(n)))
    for name in ("dense", "diag", "eig"):
        mat, dense = matzoo.pos_def_metrics(n)[name]
        cases.append((f"Gaussian[{name}]", S.GaussianEuclideanMetricSystem(model.neg_log_dens, metric=mat, grad_neg_log_dens=model.grad_neg_log_dens), pos, dense))
    # constrained: momentum law is N(0, P M P^T) with P the projector onto the cotangent space
    for kind in ("Constrained", "ConstrainedHausdorff", "GaussianConstrained"):
        for name in ("dense", "diag", "tri-lower"):
            if kind == "GaussianConstrained" and name == "tri-lower":
                continue
            mat, dense = matzoo.pos_def_metrics(n)[name]
            m2 = zoo.Model(n)
            q = zoo.on_manifold_point(m2, 3)
            kw = dict(metric=mat, grad_neg_log_dens=m2.grad_neg_log_dens, jacob_constr=m2.jacob_constr, mhp_constr=m2.mhp_constr)
            if kind == "GaussianConstrained":
                sysc = S.GaussianDenseConstrainedEuclideanMetricSystem(m2.neg_log_dens, m2.constr, **kw)
            else:
                sysc = S.DenseConstrainedEuclideanMetricSystem(m2.neg_log_dens, m2.constr,
                                                               dens_wrt_hausdorff=(kind == "ConstrainedHausdorff"), **kw)
            J = m2._jac(q)
            Minv = np.linalg.inv(dense)
            P = np.eye(n) - J.T @ np.linalg.solve(J @ Minv @ J.T, J @ Minv)
            cases.append((f"{kind}[{name}]", sysc, q, P @ dense @ P.T))
    # Riemannian: metric at the current position
    exp = {"scalar": lambda q: (1 + 0.5 * q @ q) * np.eye(n), "diag": lambda q: np.diag(1 + q**2),
           "chol": lambda q: zoo.Model(n)._chol(q) @ zoo.Model(n)._chol(q).T, "dense": lambda q: zoo.Model(n)._dense(q)}
    for fl in zoo.RIEMANNIAN_FLAVOURS:
        m3 = zoo.Model(n)
        cases.append((f"Riemannian[{fl}]", zoo.make_system("Riemannian", m3, flavour=fl), pos, exp[fl](pos)))
    m4 = zoo.Model(n)
    H = m4._hess(pos)
    w, V = np.linalg.eigh(H)
    cases.append(("SoftAbs", zoo.make_system("SoftAbs", m4), pos, V @ np.diag(w / np.tanh(1.5 * w)) @ V.T))
    return cases


def fr(x):
    return Fraction(x[0], x[1])


def check_all(tier, name):
    from mici.states import ChainState
    from mici.transitions import CorrelatedMomentumTransition, IndependentMomentumTransition

    leaves, res = run_spec(tier, name)
    viol, drift, runs = [], [], 0
    cases = system_cases(tier)
    rs = np.random.default_rng(3)
    seen = set()

    def add(sig, what, rp):
        if sig not in seen:
            seen.add(sig)
            viol.append(("C08", sig, what, rp))

    for label, system, pos, cov in cases:
        n = len(pos)
        base = ChainState(pos=np.array(pos), mom=None, dir=1)
        # ---- factor identity: fresh momenta are L z with L L^T = (projected) metric ----
        cols = []
        for i in range(n):
            e = np.zeros(n)
            e[i] = 1.0
            rng = ScriptRng([e])
            cols.append(np.array(system.sample_momentum(base, rng)))
            if rng.n != 1:
                add(f"C08:{label}:draw-count", f"{label}: sample_momentum consumed {rng.n} normal draws", {"engine": "momentum", "label": label})
        Lm = np.array(cols).T
        runs += n
        z = rs.standard_normal(n)
        lin = np.array(system.sample_momentum(base, ScriptRng([z])))
        if not np.allclose(lin, Lm @ z, rtol=1e-10, atol=1e-12):
            add(f"C08:{label}:not-linear", f"{label}: sample_momentum is not a linear image of the normal draw", {"engine": "momentum", "label": label})
        if not np.allclose(Lm @ Lm.T, cov, rtol=1e-9, atol=1e-10):
            add(f"C08:{label}:factor-identity",
                f"{label}: fresh momenta are L z with L L^T = {np.round(Lm @ Lm.T, 6).tolist()} but the (projected) metric at the position is {np.round(cov, 6).tolist()}",
                {"engine": "momentum", "label": label})
        # ---- the same identity on a system that has been USED (what an integrator step asks of it: energies, flows,
        #      derivatives -- lazily computed factorisations of the metric are filled by then) ----
        used = ChainState(pos=np.array(pos), mom=lin.copy(), dir=1)
        for meth, args in (("h", ()), ("h1_flow", (0.1,)), ("h2_flow", (0.1,)), ("dh2_flow_dmom", (0.1,)), ("dh_dpos", ()), ("dh_dmom", ())):
            if hasattr(system, meth):
                try:
                    getattr(system, meth)(used.copy(), *args)
                except Exception:  # noqa: BLE001
                    pass
        cols = []
        for i in range(n):
            e = np.zeros(n)
            e[i] = 1.0
            cols.append(np.array(system.sample_momentum(ChainState(pos=np.array(pos), mom=None, dir=1), ScriptRng([e]))))
        Lu = np.array(cols).T
        runs += n
        if not np.allclose(Lu @ Lu.T, cov, rtol=1e-9, atol=1e-10):
            add(f"C08:{label}:factor-identity:after-use",
                f"{label}: after the system has evaluated energies, flows and derivatives once, fresh momenta are L z with L L^T = "
                f"{np.round(Lu @ Lu.T, 6).tolist()} but the (projected) metric at the position is {np.round(cov, 6).tolist()}",
                {"engine": "momentum", "label": label})
        # ---- transitions: every enumerated sequence of refreshes ----
        for leaf in leaves:
            hist = leaf["hist"]
            had = hist[0][0] == "init-mom"
            p0 = np.array(system.sample_momentum(base, ScriptRng([rs.standard_normal(n)]))) if had else None
            st = ChainState(pos=np.array(pos), mom=None if p0 is None else p0.copy(), dir=1)
            zs = [rs.standard_normal(n) for _ in range(len(hist))]
            for shared_obj in (False, True):
                # shared_obj: ONE transition object of each kind for the whole sequence, its (public) refresh coefficient
                # reassigned before every use -- a refresh-rate schedule -- instead of a new object per step
                st = ChainState(pos=np.array(pos), mom=None if p0 is None else p0.copy(), dir=1)
                rng = ScriptRng(zs)
                shared_c, shared_i = None, IndependentMomentumTransition(system)
                for kind, c in hist[1:]:
                    cval = float(fr(c))
                    if not shared_obj:
                        tr = IndependentMomentumTransition(system) if kind == "independent" else CorrelatedMomentumTransition(system, cval)
                    elif kind == "independent":
                        tr = shared_i
                    else:
                        if shared_c is None:
                            shared_c = CorrelatedMomentumTransition(system, cval)
                        shared_c.mom_resample_coeff = cval
                        tr = shared_c
                    st, _ = tr.sample(st, rng)
                runs += 1
                a, b = float(fr(leaf["a"])), [float(fr(x)) for x in leaf["b"]]
                rp = {"engine": "momentum", "label": label, "hist": hist, "shared_transition_object": shared_obj}
                if rng.n != len(b):
                    add(f"C08:{label.split('[')[0]}:draws-consumed",
                        f"{label}: transitions {hist[1:]} consumed {rng.n} normal draws, the specification {len(b)}", rp)
                    continue
                want = (a * p0 if p0 is not None else np.zeros(n)) + sum(
                    bi * np.array(system.sample_momentum(base, ScriptRng([zs[i]]))) for i, bi in enumerate(b))
                if st.mom is None or not np.allclose(st.mom, want, rtol=1e-10, atol=1e-12):
                    add(f"C08:{label.split('[')[0]}:refresh-law",
                        f"{label}: after {hist} the momentum is {None if st.mom is None else np.round(st.mom, 6).tolist()} but "
                        f"{a}*p0 + sum b_i L z_i with b = {b} is {np.round(want, 6).tolist()} (Gaussian law not preserved)", rp)
    # ---- the metric of a Euclidean-metric system is reassigned (as the metric adapters do): momenta
    #      drawn afterwards must follow the NEW metric, whatever was drawn before ----
    import mici.systems as S
    zoo3 = matzoo.pos_def_metrics(3)
    model = zoo.Model(3)
    for cls in (S.EuclideanMetricSystem, S.GaussianEuclideanMetricSystem):
        for first, second in (("dense", "diag"), ("diag", "dense.inv"), ("tri-lower", "eig"), ("identity", "lowrank-")):
            system = cls(model.neg_log_dens, metric=zoo3[first][0], grad_neg_log_dens=model.grad_neg_log_dens)
            base = ChainState(pos=np.array([0.3, -0.2, 0.5]), mom=None, dir=1)
            st = ChainState(pos=np.array([0.3, -0.2, 0.5]), mom=None, dir=1)
            IndependentMomentumTransition(system).sample(st, ScriptRng([rs.standard_normal(3)]))   # a draw under the first metric
            system.metric = matzoo.pos_def_metrics(3)[second][0]
            cols = []
            for i in range(3):
                e = np.zeros(3)
                e[i] = 1.0
                st2, _ = CorrelatedMomentumTransition(system, 1.0).sample(st, ScriptRng([e]))
                cols.append(np.array(st2.mom))
            Lm = np.array(cols).T
            runs += 3
            if not np.allclose(Lm @ Lm.T, zoo3[second][1], rtol=1e-9, atol=1e-10):
                add(f"C08:{cls.__name__}:stale-factor-after-metric-change",
                    f"{cls.__name__}: after a draw under metric '{first}' and reassigning system.metric to '{second}', fresh momenta have "
                    f"covariance {np.round(Lm @ Lm.T, 6).tolist()} instead of the new metric {np.round(zoo3[second][1], 6).tolist()}",
                    {"engine": "momentum", "label": f"{cls.__name__}:{first}->{second}"})
    return {"leaves": leaves, "res": res, "viol": viol, "drift": drift, "runs": runs, "cases": [c[0] for c in cases]}
