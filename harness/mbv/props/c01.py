"""C01 — integration transitions leave exp(-H) exactly invariant (Transitions.tla)."""

from __future__ import annotations

import json

from mbv import transitions_engine as E
from mbv.verdict import Outcome


def _run(tier, seed, pid, faults):
    out = Outcome(pid)
    cfgs = E.gen_configs(tier, seed, faults=faults)
    if not faults:
        cfgs = E.exhaustive_small_configs() + cfgs
    recs, stats, failures = E.run_spec(cfgs, f"{pid.lower()}_{tier}")
    spec_map = E.spec_kernel(recs)
    # spec-level failures are never blamed on the code: they mean the model (or TLC run) is broken
    for f in failures:
        raise E.MachineryError(f"Transitions.tla violates its own property {f[0]} (cfg {f[1]}): "
                               + (json.dumps(cfgs[f[1]]) if f[1] is not None else str(f[2:])[:2000]))
    impl_map, n_beh = {}, 0
    for ci, cfg in enumerate(cfgs):
        bm, viol = E.check_impl_config(ci, cfg, pid)
        impl_map.update(bm)
        for (owner, sig, what, rp) in viol:
            if owner == pid:
                out.violate(sig, what, rp)
    for d in E.compare_spec_impl(cfgs, spec_map, impl_map):
        out.drift(d)
    traces = E.validate_traces(cfgs, impl_map, f"{pid.lower()}_{tier}_trace", seed,
                               max_traces=400 if tier == "quick" else 4000)
    for d in traces["rejected"]:
        out.drift("trace rejected by Trace_Transitions: " + d)
    sample_keys = sorted(impl_map, key=repr)[:: max(1, len(impl_map) // 3)][:3]
    out.coverage = {
        "states": stats["distinct"], "transitions": stats["generated"],
        "traces_validated_against_impl": traces["validated"],
        "configurations": len(cfgs), "tlc_label_coverage": stats.get("action_coverage", {}),
        "kernels": sorted({c["kernel"] for c in cfgs}),
        "spec_behaviours": len(spec_map), "impl_behaviours": len(impl_map),
        "behaviours_identical": len(set(spec_map) & set(impl_map)),
        "exhaustive": True,
        "bounds": {"N_max": max(c["N"] for c in cfgs), "W_max": max(max(c["W"]) for c in cfgs),
                   "max_tree_depth": 3, "n_step_max": 3},
        "samples": [
            {"cfg": cfgs[k[0]], "start": k[1], "dir": k[2], "draws": E._fmt_draws(k[3]),
             "end": impl_map[k]["end"], "prob": str(impl_map[k]["prob"]),
             "stats": impl_map[k]["stats"]} for k in sample_keys],
    }
    out.assumptions = [
        "orbit abstraction: the transitions touch the system only through h, dh_dmom, pos/mom/dir and integrator.step, so a finite reversible orbit with integer weights is a complete environment",
        "TLC-side stationarity identity is checked modulo four 15-bit primes; the same identity is re-decided exactly (Fractions) on the implementation kernel",
        "slice variable discretised exactly: behaviour is constant for u*W_start in (l-1, l)",
    ]
    return out


def run(tier, seed):
    return _run(tier, seed, "C01", faults=False)


def replay(rep):
    out = Outcome("C01")
    for (owner, sig, what, rp) in E.replay_case(rep):
        if owner == "C01":
            out.violate(sig, what, rp)
    return out
