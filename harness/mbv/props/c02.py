"""C02 — every integrator step is time-reversible or fails loudly (Integrators.tla)."""

from mbv import integrators_engine as E
from mbv.verdict import Outcome

PID = "C02"
ASSUME = [
    "sub-step events observed through instance-level wrappers of system flows, fixed_point_solver, projection_solver and reverse_check_norm (no source hooks); time fractions rounded to 1e-6 of the step",
    "round trip measured numerically (1e-9 explicit, 5e-6 implicit/constrained); real systems from the model zoo, dimension 2-3",
]


def run(tier, seed, pid=PID):
    out = Outcome(pid)
    schemes, res = E.run_part1(tier, f"{pid.lower()}_{tier}_p1")
    viol, drift, n = E.check_part1(schemes)
    for owner, sig, what, rp in viol:
        if owner == pid:
            out.violate(sig, what, rp)
    for d in drift:
        out.drift(d)
    ff_states, ff_replayed = 0, 0
    if pid == "C02":
        v3, d3, ff_states, ff_replayed = E.run_finite_flow(tier, f"{pid.lower()}_{tier}_ff")
        for owner, sig, what, rp in v3:
            out.violate(sig, what, rp)
        for d in d3:
            out.drift(d)
    rf_runs = 0
    if pid == "C02":
        v4, rf_runs = E.reverse_solve_faults(tier)
        for owner, sig, what, rp in v4:
            out.violate(sig, what, rp)
    tr = E.run_traces(tier, f"{pid.lower()}_{tier}_trace")
    for owner, sig, what, rp in tr["failures"]:
        if owner == pid:
            out.violate(sig, what, rp)
    bad = {id(t) for t in []}
    t0 = tr["traces"][0]
    out.coverage = {
        "states": res.distinct + tr["states"] + ff_states, "transitions": res.generated + tr["states"] + ff_states,
        "traces_validated_against_impl": len(tr["traces"]) + ff_replayed,
        "finite_field_states_checked_and_replayed": ff_replayed,
        "scripted_backward_solve_faults": rf_runs,
        "composition_schemes_enumerated_and_instantiated": n,
        "integrator_system_scenarios": len(tr["traces"]) // 2,
        "step_outcomes": sorted({t["outcome"].split(":")[0] for t in tr["traces"]}),
        "samples": [{"scenario": E._scname(t0["sc"]), "events": [(e["op"], e["frac"]) for e in t0["ev"]], "outcome": t0["outcome"]},
                    {"composition": schemes[len(schemes) // 2]}],
    }
    out.assumptions = ASSUME
    return out


def replay(rep, pid=PID):
    out = Outcome(pid)
    if rep.get("engine") == "integrators-revfault":
        for owner, sig, what, rp in E.reverse_solve_faults("thorough")[0]:
            if all(rp.get(k) == rep.get(k) for k in ("integ", "flavour", "direction", "j")):
                out.violate(sig, what, rp)
        return out
    if rep.get("engine") == "integrators-trace":
        sc = rep["scenario"]
        tr = E.record_step(sc, rep["direction"])
        rt, cs = E.measure_roundtrip(sc), E.measure_consistency(sc)
        if rt is not None:
            tr["roundtrip_ok"], tr["rt_err"] = rt
        if cs is not None:
            tr["consistent_pos"], tr["consistent_mom"], tr["ratio"] = cs
        fails, _ = E.validate([tr], f"{pid.lower()}_replay")
        for _, inv in fails:
            out.violate(inv, inv, rep)
    return out
