"""C04 — constrained dynamics never leave the manifold / cotangent space (Solvers.tla + Integrators.tla)."""

from mbv import integrators_engine as IE
from mbv import solvers_engine as SE
from mbv.props import c02
from mbv.verdict import Outcome


def run(tier, seed):
    out = Outcome("C04")
    r = SE.check_all(tier, f"c04_{tier}_solv")
    for owner, sig, what, rp in r["viol"]:
        if owner == "C04":
            out.violate(sig, what, rp)
    for d in r["drift"]:
        out.drift(d)
    tr = IE.run_traces(tier, f"c04_{tier}_trace")
    for owner, sig, what, rp in tr["failures"]:
        if owner == "C04":
            out.violate(sig, what, rp)
    cons = [t for t in tr["traces"] if t["kind"] == "constrained"]
    b = r["behaviours"][len(r["behaviours"]) // 2]
    out.coverage = {
        "states": r["stats"]["distinct"] + tr["states"], "transitions": r["stats"]["generated"] + tr["states"],
        "traces_validated_against_impl": r["runs"] + len(cons),
        "solver_scripts_enumerated": len(r["behaviours"]), "solver_configurations": r["cfgs"],
        "constrained_step_traces": len(cons),
        "samples": [{"solver": b["cfg"]["solver"], "script": b["script"], "outcome": b["outcome"], "mu": b["mu"], "dpos": b["dpos"]},
                    {"scenario": IE._scname(cons[0]["sc"]), "events": [(e["op"], e["frac"], e["man"], e["cot"]) for e in cons[0]["ev"]]}],
    }
    out.assumptions = ["solver environment scripted through the user constraint function of a real 1-D DenseConstrainedEuclideanMetricSystem; residuals are signed powers of two",
                       "manifold / cotangent flags measured at 1e-7 on real constrained systems with 1-2 curved or linear constraints"]
    return out


def replay(rep):
    out = Outcome("C04")
    if rep.get("engine") == "solvers":
        b = rep["behaviour"]
        for owner, sig, what in SE.check_behaviour(b)[0]:
            if owner == "C04":
                out.violate(sig, what, rep)
        return out
    return c02.replay(rep, "C04")
