"""C04 — constrained dynamics never leave the manifold / cotangent space (Solvers.tla + Integrators.tla)."""

from mbv import integrators_engine as IE
from mbv import solvers_engine as SE
from mbv.props import c02
from mbv.verdict import Outcome


def run(tier, seed):
    out = Outcome("C04")
    r = SE.check_all(tier, f"c04_{tier}_solv")
    for owner, sig, what, rp in r["viol"]:
        if owner == "C04":
            out.violate(sig, what, rp)
    for d in r["drift"]:
        out.drift(d)
    tr = IE.run_traces(tier, f"c04_{tier}_trace")
    for owner, sig, what, rp in tr["failures"]:
        if owner == "C04":
            out.violate(sig, what, rp)
    n_mc = 0
    for sig, what, rp in metric_change_cotangent():
        n_mc += 1
        if what:
            out.violate(sig, what, rp)
    cons = [t for t in tr["traces"] if t["kind"] == "constrained"]
    b = r["behaviours"][len(r["behaviours"]) // 2]
    out.coverage = {
        "states": r["stats"]["distinct"] + tr["states"], "transitions": r["stats"]["generated"] + tr["states"],
        "traces_validated_against_impl": r["runs"] + len(cons),
        "solver_scripts_enumerated": len(r["behaviours"]), "solver_configurations": r["cfgs"],
        "constrained_step_traces": len(cons), "metric_change_cases": n_mc,
        "samples": [{"solver": b["cfg"]["solver"], "script": b["script"], "outcome": b["outcome"], "mu": b["mu"], "dpos": b["dpos"]},
                    {"scenario": IE._scname(cons[0]["sc"]), "events": [(e["op"], e["frac"], e["man"], e["cot"]) for e in cons[0]["ev"]]}],
    }
    out.assumptions = ["solver environment scripted through the user constraint function of a real 1-D DenseConstrainedEuclideanMetricSystem; residuals are signed powers of two",
                       "manifold / cotangent flags measured at 1e-7 on real constrained systems with 1-2 curved or linear constraints"]
    return out


def metric_change_cotangent():
    """The ambient metric of a constrained system is reassigned (what the metric adapters do at the end of a
    slow window) and a momentum is drawn for a state that was used before: it must lie in the cotangent
    space of the NEW metric."""
    import numpy as np
    from mbv import matzoo, zoo
    from mici.states import ChainState

    for kind in ("Constrained", "ConstrainedHausdorff", "GaussianConstrained"):
        for first, second in (("dense", "diag"), ("diag", "dense")):
            m = zoo.Model(3)
            system = zoo.make_system(kind, m, metric=first)
            q = zoo.on_manifold_point(m, 3)
            st = ChainState(pos=q, mom=None, dir=1)
            st.mom = system.sample_momentum(st, np.random.default_rng(1))
            system.metric = matzoo.pos_def_metrics(3)[second][0]
            p = system.sample_momentum(st, np.random.default_rng(2))
            v = float(np.max(np.abs(m._jac(q) @ (system.metric.inv @ p))))
            rp = {"engine": "metric-change", "kind": kind, "first": first, "second": second}
            yield (f"C04:{kind}:sampled-momentum-after-metric-change",
                   None if v < 1e-8 else f"{kind}: after reassigning system.metric ('{first}' -> '{second}') a momentum sampled for a "
                   f"previously used state is outside the cotangent space: |J M^-1 p| = {v:.3g} (the Gram matrix cached in the state is stale)", rp)


def replay(rep):
    out = Outcome("C04")
    if rep.get("engine") == "solvers":
        b = rep["behaviour"]
        for owner, sig, what in SE.check_behaviour(b)[0]:
            if owner == "C04":
                out.violate(sig, what, rep)
        return out
    return c02.replay(rep, "C04")
