"""C04 — constrained dynamics never leave the manifold / cotangent space (Solvers.tla + Integrators.tla)."""

from mbv import integrators_engine as IE
from mbv import solvers_engine as SE
from mbv.props import c02
from mbv.verdict import Outcome


def run(tier, seed):
    out = Outcome("C04")
    r = SE.check_all(tier, f"c04_{tier}_solv")
    for owner, sig, what, rp in r["viol"]:
        if owner == "C04":
            out.violate(sig, what, rp)
    for d in r["drift"]:
        out.drift(d)
    tr = IE.run_traces(tier, f"c04_{tier}_trace")
    for owner, sig, what, rp in tr["failures"]:
        if owner == "C04":
            out.violate(sig, what, rp)
    n_mc = 0
    for sig, what, rp in metric_change_cotangent():
        n_mc += 1
        if what:
            out.violate(sig, what, rp)
    cons = [t for t in tr["traces"] if t["kind"] == "constrained"]
    b = r["behaviours"][len(r["behaviours"]) // 2]
    out.coverage = {
        "states": r["stats"]["distinct"] + tr["states"], "transitions": r["stats"]["generated"] + tr["states"],
        "traces_validated_against_impl": r["runs"] + len(cons),
        "solver_scripts_enumerated": len(r["behaviours"]), "solver_configurations": r["cfgs"],
        "constrained_step_traces": len(cons), "metric_change_cases": n_mc,
        "samples": [{"solver": b["cfg"]["solver"], "script": b["script"], "outcome": b["outcome"], "mu": b["mu"], "dpos": b["dpos"]},
                    {"scenario": IE._scname(cons[0]["sc"]), "events": [(e["op"], e["frac"], e["man"], e["cot"]) for e in cons[0]["ev"]]}],
    }
    out.assumptions = ["solver environment scripted through the user constraint function of a real 1-D DenseConstrainedEuclideanMetricSystem; residuals are signed powers of two",
                       "manifold / cotangent flags measured at 1e-7 on real constrained systems with 1-2 curved or linear constraints"]
    return out


def metric_change_cotangent():
    """The library's own way of changing the ambient metric of a constrained system under live states: a
    metric adapter's `finalize` installs the adapted metric and redraws the momenta of the chain states it is
    given.  Every redrawn momentum must lie in the cotangent space at the state's position for the NEW
    metric, whatever the states computed (and cached) before."""
    import types

    import numpy as np
    from mbv import zoo
    from mici.adapters import OnlineCovarianceMetricAdapter, OnlineVarianceMetricAdapter
    from mici.states import ChainState

    for kind in ("Constrained", "ConstrainedHausdorff", "GaussianConstrained"):
        for first in ("dense", "diag", "identity"):
            for acls in (OnlineVarianceMetricAdapter, OnlineCovarianceMetricAdapter):
                for n_chain, model_kw in ((1, {}), (2, {}), (2, {"curved": False, "const_jac": True})):
                    m = zoo.Model(3, **model_kw)
                    system = zoo.make_system(kind, m, metric=first)
                    transition = types.SimpleNamespace(system=system)
                    adapter = acls()
                    states, ads, rngs = [], [], []
                    for c in range(n_chain):
                        st = ChainState(pos=zoo.on_manifold_point(m, 3 + c), mom=None, dir=1)
                        st.mom = system.sample_momentum(st, np.random.default_rng(1 + c))   # fills the caches
                        ad = adapter.initialize(st, transition)
                        for i in range(4):
                            adapter.update(ad, ChainState(pos=st.pos + 0.1 * (i + 1) * np.arange(1, 4) ** c, mom=None, dir=1), {}, transition)
                        states.append(st), ads.append(ad), rngs.append(np.random.default_rng(10 + c))
                    if n_chain == 1:
                        adapter.finalize(ads[0], states[0], transition, rngs[0])
                    else:
                        adapter.finalize(ads, states, transition, rngs)
                    v = max(float(np.max(np.abs(m._jac(st.pos) @ (system.metric.inv @ st.mom)))) for st in states)
                    rp = {"engine": "metric-change", "kind": kind, "first": first, "adapter": acls.__name__, "n_chain": n_chain,
                          "model": model_kw}
                    yield (f"C04:{kind}:sampled-momentum-after-metric-change",
                           None if v < 1e-8 else f"{kind}: {acls.__name__}.finalize installed the adapted metric (was '{first}') and redrew the "
                           f"momentum of a live state outside the cotangent space: |J M^-1 p| = {v:.3g} (the Gram matrix cached in the state is stale)", rp)


def replay(rep):
    out = Outcome("C04")
    if rep.get("engine") == "solvers":
        b = rep["behaviour"]
        for owner, sig, what in SE.check_behaviour(b)[0]:
            if owner == "C04":
                out.violate(sig, what, rep)
        return out
    if rep.get("engine") == "metric-change":
        for sig, what, rp in metric_change_cotangent():
            if what and all(rp.get(k) == rep.get(k) for k in ("kind", "first", "adapter", "n_chain", "model")):
                out.violate(sig, what, rp)
        return out
    return c02.replay(rep, "C04")
