"""C05 — Hamiltonian values and derivative methods of every system are consistent (SysGrad.tla)."""

from mbv import sysgrad_engine as E
from mbv.verdict import Outcome


def run(tier, seed):
    out = Outcome("C05")
    r = E.check_all(tier, f"c05_{tier}")
    for owner, sig, what, rp in r["viol"]:
        out.violate(sig, what, rp)
    mid = r["recs"][len(r["recs"]) // 2]
    out.coverage = {
        "states": r["stats"]["distinct"], "transitions": r["stats"]["generated"],
        "traces_validated_against_impl": 2 * len(r["cases"]),
        "system_metric_state_cases": len(r["cases"]), "return_conventions": ["plain", "with auxiliary outputs"],
        "systems": sorted({f"{c['sys']}[{c.get('given') or c['metric']}]" for c in r["cases"]}),
        "values_compared_exactly": r["values"], "softabs_values_compared_numerically": r["softabs_values"],
        "samples": [{k: mid[k] for k in ("sys", "metric", "q", "p", "h1poly", "h1det", "h2", "dh1_dpos", "dh2_dpos", "dh2_dmom")}],
    }
    out.assumptions = [
        "model functions of harness/mbv/zoo.py (polynomials of degree <= 4) transcribed into SysGrad.tla and cross-checked against the zoo at every "
        "state; exact partial derivatives by a five-point stencil; documented Hamiltonians; rational states in R^3; tolerance 1e-9",
        "h1 contains 1/2 log det (Gram / metric): the determinant is exact, its logarithm is taken in floating point by the harness",
        "SoftAbs metric is not a rational function of the position: its derivative methods are compared with five-point differences of "
        "system.h / h1 / h2 (1e-7) -- numerical, not decided by the specification",
    ]
    return out


def replay(rep):
    out = Outcome("C05")
    if rep.get("engine") == "sysgrad-softabs":
        for owner, sig, what, rp in E.softabs_numeric()[0]:
            out.violate(sig, what, rp)
        return out
    r = E.check_all("quick", "c05_replay")
    for owner, sig, what, rp in r["viol"]:
        if rp.get("case", {}).get("sys") == rep.get("case", {}).get("sys"):
            out.violate(sig, what, rp)
    return out
