"""C07 — component flow maps are the exact flows of their Hamiltonian components (FlowExact.tla)."""

from mbv import flowexact_engine as E
from mbv.verdict import Outcome


def run(tier, seed):
    out = Outcome("C07")
    r = E.check_all(tier, f"c07_{tier}")
    for owner, sig, what, rp in r["viol"]:
        out.violate(sig, what, rp)
    mid = next(x for x in r["recs"] if x["sys"] == "Gaussian" and x["metric"] == "rotk")
    out.coverage = {
        "states": r["stats"]["distinct"], "transitions": r["stats"]["generated"],
        "traces_validated_against_impl": 2 * len(r["cases"]),
        "flow_cases": len(r["cases"]), "values_compared_exactly": r["values"],
        "systems": sorted({f"{c['sys']}[{c['metric']}]" for c in r["cases"]}),
        "times": sorted({str(c["t"]) + ("*atan2(3,-4)" if isinstance(c["t"], int) else "") for c in r["cases"]}),
        "samples": [{k: mid[k] for k in ("sys", "metric", "q", "p", "t", "h2", "dpos_dmom", "dmom_dmom")}],
    }
    out.assumptions = [
        "Euclidean-type h2 flows and all h1 flows at rational times; Gaussian-split h2 flows for metrics Q diag(1/k^2) Q' with rational orthogonal Q "
        "and rational k (identity; diag(1, 1/4, 1/9); the same rotated in a plane; diag(1, 1/4, 1); diag(4, 1, 4) with frequencies 1/2, 1, 1/2) at "
        "times j*atan2(3,-4), where every sine and cosine is rational (phases up to 7.5 rad and times up to 10 > 2*pi); states in R^3; tolerance 1e-9",
        "each system is checked as built with its metric, after being built with another metric, used and reassigned (what the metric adapters do), "
        "and -- dense metrics -- with the metric given as the inverse of an already used matrix object",
        "the closed-form harmonic-oscillator solution is the documented exact solution; the spec checks on it, exactly: energy conservation, "
        "Phi(s)Phi(t) = Phi(s+t), Phi(-t)Phi(t) = id; Jacobian blocks by applying the linear flow to unit momenta",
        "dh1/dq from the documented h1 via ZooModel's exact stencil derivatives (as in C05); dh2_flow_dmom exists on the constrained systems only",
    ]
    return out


def replay(rep):
    out = Outcome("C07")
    r = E.check_all("quick", "c07_replay")
    for owner, sig, what, rp in r["viol"]:
        if rp.get("case", {}).get("sys") == rep.get("case", {}).get("sys"):
            out.violate(sig, what, rp)
    return out
