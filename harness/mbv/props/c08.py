"""C08 — momentum updates leave the Gaussian momentum law exactly invariant (Momentum.tla)."""

from mbv import momentum_engine as E
from mbv.verdict import Outcome


def run(tier, seed):
    out = Outcome("C08")
    r = E.check_all(tier, f"c08_{tier}")
    for owner, sig, what, rp in r["viol"]:
        out.violate(sig, what, rp)
    out.coverage = {
        "states": r["res"].distinct, "transitions": r["res"].generated,
        "traces_validated_against_impl": r["runs"],
        "refresh_sequences": len(r["leaves"]), "system_metric_cases": r["cases"],
        "samples": [r["leaves"][len(r["leaves"]) // 2]],
    }
    out.assumptions = ["refresh coefficients restricted to Pythagorean rationals (0, 3/5, 4/5, 5/13, 1) so that the law bookkeeping is exact",
                       "expected (projected) metric arrays computed with dense NumPy algebra from rational parameters; tolerance 1e-9"]
    return out


def replay(rep):
    out = Outcome("C08")
    r = E.check_all("quick", "c08_replay")
    for owner, sig, what, rp in r["viol"]:
        out.violate(sig, what, rp)
    return out
