"""C10 — structured matrix expressions agree with dense linear algebra (Matrices.tla)."""

from mbv import matrices_engine as E
from mbv.verdict import Outcome


def run(tier, seed):
    out = Outcome("C10")
    starts = [l["name"] for l in E.PARAMS if not l.get("grad_only")]  # (entries of the others overflow 32-bit rationals in products)
    depth = 2 if tier == "quick" else 3
    if tier == "thorough":
        # depth 3 on every class family representative, depth 2 on everything
        progs, stats = E.run_spec("programs", 2, starts, E.PARTNERS, "c10_thorough_d2", shards=14)
        reps = ["sI3n", "D3", "TL3", "ITU3", "TF3n", "TF3fi", "DPD3f", "DND3", "DSQ3lu", "SORT3", "EIG3", "EIG3p",
                "BD3", "SBD3", "PBD3", "BR3", "LR3n", "LR3nc", "LR32pc", "SLR3n", "PLR3p", "PLR3n", "PLR3nc", "PLRI3",
                "TFf3pu", "DSQ1", "TF1p"]
        # (partners with small dyadic entries only: exact 32-bit rational arithmetic overflows otherwise)
        p3, s3 = E.run_spec("programs", 3, reps, ["I3", "D3", "TL3", "DSQ3", "ORT3", "R32", "R23", "sI1n"],
                            "c10_thorough_d3", shards=14)
        progs += [p for p in p3 if len(p["ops"]) == 3]
        stats = {k: stats[k] + s3[k] for k in stats}
    else:
        progs, stats = E.run_spec("programs", depth, starts, E.PARTNERS, "c10_quick", shards=14)
    viol, n = E.check_programs(progs)
    v2, n2 = E.implicit_size_checks()
    v3, n3 = E.softabs_checks()
    v4, n4 = E.large_scaled_checks()
    for owner, sig, what, rp in viol + v2 + v3 + v4:
        out.violate(sig, what, rp)
    mid = progs[len(progs) // 2]
    out.coverage = {
        "states": stats["distinct"], "transitions": stats["generated"],
        "traces_validated_against_impl": n,
        "programs_executed_on_real_classes": n, "leaf_constructors": len(E.PARAMS),
        "classes": sorted({l["cls"] for l in E.PARAMS}), "max_depth": depth,
        "implicit_size_checks": n2, "softabs_identity_checks": n3, "large_scaled_objects_checked_numerically": n4,
        "observables": ["array", "matvec", "matmat", "rmatvec", "rmatmat", "transpose", "diagonal", "log_abs_det",
                        "inv.array", "inv.matvec", "inv.inv", "eigval", "eigvec", "sqrt"],
        "samples": [{"program": E.prog_str(mid), "exact_value": mid["val"], "promised": mid["facts"]}],
    }
    out.assumptions = [
        "exact rational semantics of every class in Matrices.tla (LeafValue); parameters from specs/matrix_params.json (dyadic / small rationals, well conditioned)",
        "floating-point comparison with relative tolerance 1e-9 against the exact values; SoftAbs matrices (tanh) only through algebraic identities",
        "program shape: a leaf followed by unary operations and products with leaves (not arbitrary binary trees)",
    ]
    return out


def replay(rep):
    out = Outcome("C10")
    if rep.get("engine") == "matrices":
        progs, _ = E.run_spec("programs", len(rep["ops"]), [rep["leaf"]], E.PARTNERS, "c10_replay", shards=1)
        progs = [p for p in progs if p["ops"] == rep["ops"]]
        for owner, sig, what, rp in E.check_programs(progs)[0]:
            out.violate(sig, what, rp)
    else:
        for owner, sig, what, rp in E.implicit_size_checks()[0] + E.softabs_checks()[0]:
            out.violate(sig, what, rp)
    return out
