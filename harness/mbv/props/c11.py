"""C11 — differentiable matrices report the true parameter gradients (MatGrad.tla)."""

from mbv import matgrad_engine as E
from mbv.verdict import Outcome


def run(tier, seed):
    out = Outcome("C11")
    r = E.check_all(tier, f"c11_{tier}")
    for owner, sig, what, rp in r["viol"]:
        out.violate(sig, what, rp)
    mid = r["recs"][r["leaves"][len(r["leaves"]) // 2]]
    out.coverage = {
        "states": r["stats"]["distinct"], "transitions": r["stats"]["generated"],
        "traces_validated_against_impl": len(r["leaves"]),
        "differentiable_constructor_variants": len(r["leaves"]), "variants": r["classes"],
        "gradient_entries_compared_exactly": r["entries"], "softabs_entries_compared_numerically": r["softabs_entries"],
        "samples": [{"leaf": mid["leaf"], "test_vector": mid["vec"], "exact_grad_log_abs_det": mid["blocks"][0]["gl"],
                     "exact_grad_quadratic_form_inv": mid["blocks"][0]["gq"]}],
    }
    out.assumptions = [
        "exact gradients from the classes' documented meaning (MatSemantics.RecValue): dM/dP_ij by an exact central difference "
        "(M is a polynomial of degree <= 2 in every parameter entry), d log|det| = tr(M^-1 dM), d v'M^-1v = -w' dM w; "
        "rational parameter values from specs/matrix_params.json, sizes 1-3, one rational test vector per size; tolerance 1e-9",
        "SoftAbs matrices are not rational functions of their parameter: compared with central differences (1e-5 relative), "
        "including repeated eigenvalues -- this part is numerical, not decided by the specification",
    ]
    return out


def replay(rep):
    out = Outcome("C11")
    if rep.get("engine") == "matgrad-softabs":
        for owner, sig, what, rp in E.softabs_numeric()[0]:
            if rp["case"] == rep["case"]:
                out.violate(sig, what, rp)
        return out
    recs, _ = E.run_spec([rep["leaf"]], "c11_replay", shards=1)
    for owner, sig, what, rp in E.check_against_real(recs)[0]:
        out.violate(sig, what, rp)
    return out
