"""C12 — numerical failures inside a trajectory are contained as rejections.

Trajectory level: Transitions.tla with a fault table (NaN / infinite energies, integrator
errors of both kinds at arbitrary orbit edges, divergence thresholds); every fault placement
x every draw outcome is enumerated by TLC (invariants Contained, StatsExact) and replayed into
the real transition classes with the real exception classes.
Solver level and chain level are added by mbv.solvers_engine / mbv.chain_faults when built.
"""

from __future__ import annotations

from mbv.props import c01
from mbv.verdict import Outcome
from mbv import transitions_engine as E


def run(tier, seed):
    out = c01._run(tier, seed, "C12", faults=True)
    out.coverage["fault_kinds"] = ["NaN energy", "+inf energy (zero weight)", "ConvergenceError",
                                   "NonReversibleStepError", "HamiltonianDivergenceError (threshold)"]
    try:
        from mbv import c12_extra
    except ImportError:
        c12_extra = None
    if c12_extra is not None:
        c12_extra.extend(out, tier, seed)
    return out


def replay(rep):
    out = Outcome("C12")
    if rep.get("engine") == "transitions":
        for (owner, sig, what, rp) in E.replay_case(rep):
            if owner == "C12":
                out.violate(sig, what, rp)
    else:
        from mbv import c12_extra
        c12_extra.replay(out, rep)
    return out
