"""C13 — see mbv.sampler_checks (Sampler.tla / Trace_Sampler.tla / Stager.tla)."""

from mbv import sampler_checks as SC
from mbv.verdict import Outcome


def run(tier, seed):
    return SC.run_c13(tier, seed)


def replay(rep):
    return SC.replay("C13", rep)
