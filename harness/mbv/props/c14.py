"""C14 — see mbv.sampler_checks (Sampler.tla / Trace_Sampler.tla / Stager.tla)."""

from mbv import sampler_checks as SC
from mbv.verdict import Outcome


def run(tier, seed):
    return SC.run_c14(tier, seed)


def replay(rep):
    return SC.replay("C14", rep)
