"""C16 — see mbv.sampler_checks (Sampler.tla / Trace_Sampler.tla / Stager.tla)."""

from mbv import sampler_checks as SC
from mbv.verdict import Outcome


def run(tier, seed):
    return SC.run_c16(tier, seed)


def replay(rep):
    return SC.replay("C16", rep)
