"""C17 — adapters compute the estimators they document for any history (Adapters.tla)."""

from mbv import adapters_engine as E
from mbv.verdict import Outcome


def run(tier, seed):
    out = Outcome("C17")
    r = E.check_all(tier, f"c17_{tier}")
    for owner, sig, what, rp in r["viol"]:
        out.violate(sig, what, rp)
    for d in r["drift"]:
        out.drift(d)
    lv = r["leaves"]
    by = {m: [x for x in lv if x["mode"] == m] for m in ("moments", "dual", "search")}
    out.coverage = {
        "states": r["stats"]["distinct"], "transitions": r["stats"]["generated"],
        "traces_validated_against_impl": r["runs"],
        "histories": {m: len(v) for m, v in by.items()}, "configurations": r["cfgs"],
        "samples": [{"mode": m, "history": v[len(v) // 2]["hist"]} for m, v in by.items() if v],
    }
    out.assumptions = [
        "online Welford / pairwise-merge recursions transcribed in exact rational arithmetic; TLC proves equality with the batch formula for every history and partition within the bounds (<= 5 positions, <= 3 chains, 4 integer points)",
        "dual averaging decided for iter_decay_coeff = 1 only (recursion linear in sqrt(t) basis); the default exponent 0.75 is not covered",
        "floating-point comparison tolerance 1e-9 (offsets <= 1e3), 1e-7 (1e6), 2e-4 (1e9)",
    ]
    return out


def replay(rep):
    out = Outcome("C17")
    # replays re-run the whole quick family (histories are cheap); a targeted replay is not needed
    r = E.check_all("quick", "c17_replay")
    for owner, sig, what, rp in r["viol"]:
        out.violate(sig, what, rp)
    return out
