"""C18 — memoisation delivers its efficiency contract (StateCache.tla, invariant NoRecompute)."""

from __future__ import annotations

from mbv import statecache_engine as E
from mbv.verdict import Outcome

LEVEL_ASSUMPTIONS = [
    "array values abstracted to versions; a cached value's tag is the set of variable versions it was computed from",
    "documented reads/calls tables (CacheTables.tla) are the yardstick; declared dependencies are extracted from the code at run time",
    "bounded: <= 3 state objects, <= 2 system objects, history length <= 4/5 exhaustively, 10/14 by simulation",
]


def _outcome(pid, tier, seed):
    tot = E.check_all(tier, seed, pid)
    out = Outcome(pid)
    for owner, sig, what, rp in tot["viol"]:
        if owner == pid:
            out.violate(sig, what, rp)
    for d in tot["drift"]:
        out.drift(d)
    out.coverage = {
        "states": tot["states"], "transitions": tot["transitions"],
        "traces_validated_against_impl": tot["histories"],
        "replayed_actions_with_oracle": tot["actions"], "replayed_calls": tot["calls"],
        "tlc_counterexamples": tot["tlc_counterexamples"],
        "configurations": tot["configs"],
        "samples": tot["samples"],
    }
    out.assumptions = LEVEL_ASSUMPTIONS
    return out


def run(tier, seed):
    out = _outcome("C18", tier, seed)
    try:
        from mbv import cache_traces
    except ImportError:
        cache_traces = None
    if cache_traces is not None:
        cache_traces.extend(out, tier, seed)
    return out


def replay(rep):
    out = Outcome("C18")
    if rep.get("engine") == "statecache-repeat":
        for owner, sig, what, rp in E.repeat_call_family()[0]:
            if rp["kind"] == rep.get("kind") and rp["method"] == rep.get("method"):
                out.violate(sig, what, rp)
        return out
    if rep.get("engine") == "statecache":
        for owner, sig, what, rp in E.replay_case(rep):
            if owner == "C18":
                out.violate(sig, what, rp)
    else:
        from mbv import cache_traces
        cache_traces.replay(out, rep)
    return out
