"""C19 — matrix objects behave as immutable values (Matrices.tla, access mode)."""

from mbv import matrices_engine as E
from mbv.verdict import Outcome


def run(tier, seed):
    out = Outcome("C19")
    starts = [l["name"] for l in E.PARAMS]
    progs, stats = E.run_spec("access", 3 if tier == "quick" else 4, starts, E.PARTNERS, f"c19_{tier}", shards=14)
    v1, n1 = E.check_access_orders(progs)
    v2, n2 = E.check_value_semantics()
    for owner, sig, what, rp in v1 + v2:
        out.violate(sig, what, rp)
    mid = progs[len(progs) // 2]
    out.coverage = {
        "states": stats["distinct"], "transitions": stats["generated"],
        "traces_validated_against_impl": n1,
        "access_orders_replayed": n1, "leaf_constructors": n2, "attributes": E.ATTRS,
        "samples": [{"leaf": mid["leaf"], "access_order": [o for o, _ in mid["ops"]]}],
    }
    out.assumptions = ["all sequences (with repetition) of up to 3/4 lazy attribute reads per leaf constructor; values compared with the same attribute of a freshly built object",
                       "numerical content = every ndarray held by the object (recursively through sub-matrices) before the accesses"]
    return out


def replay(rep):
    out = Outcome("C19")
    for owner, sig, what, rp in E.check_value_semantics()[0]:
        out.violate(sig, what, rp)
    return out
