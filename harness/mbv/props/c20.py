"""C20 — log-space weight arithmetic agrees with exact real arithmetic (LogWeights.tla + decimal supplement)."""

from mbv import logweights_engine as E
from mbv.verdict import Outcome


def run(tier, seed):
    out = Outcome("C20")
    r = E.check_all(tier, f"c20_{tier}", seed)
    for sig, what, rp in r["viol"]:
        out.violate(sig, what, rp)
    s = r["sample"]
    out.coverage = {
        "states": r["stats"]["distinct"], "transitions": r["stats"]["generated"],
        "traces_validated_against_impl": r["counts"]["executions"],
        "programs_exported_by_tlc": r["programs"], "base_exponents": r["bases"],
        "register_values_compared": r["counts"]["values"], "comparisons_checked": r["counts"]["comparisons"],
        "negative_differences_checked": r["counts"]["negative_differences"], "mixed_results_compared": r["counts"]["mixed"],
        "program_executions_skipped_as_unresolved": r["counts"].get("skipped_unresolved_differences", 0),
        "numeric_supplement_points": r["numeric_points"],
        "samples": [{"loads": s["loads"], "ops": s["ops"], "exact_registers_n_d_c_k": s["regs"]}],
    }
    out.assumptions = [
        "weights n/d * 2^(c*B + k) with a symbolic base exponent B instantiated by the harness (0 ... +-1e300); leaves and plain "
        "numbers of logweights_engine.LEAVES / PLAINS; programs of two loads and <= 2 operators exhaustively (thorough: 3 on a core "
        "leaf set, random programs up to 6), mantissas <= 64, addends below 2^-80 relative dropped, exponent gaps in (12, 80) not "
        "enabled; tolerance on log-values 64 eps (ops + 2) max(1, |log-values|)",
        "differences are enabled in the specification only when zero by construction or at least a quarter of the minuend, and are "
        "not executed at magnitudes where the rounded operand log-values cannot be told apart (tolerance > 1e-3)",
        "mixed operators with plain numbers return plain floats by design: judged only where the plain value of the weight and of "
        "the exact result are within exp(+-690)",
        "numerical supplement (NOT decided by the specification): helper functions and operators on arbitrary log-values against "
        "70-digit decimal arithmetic on the exact float inputs, tolerance 8 eps max(1, |result|, |arguments|)",
    ]
    return out


def replay(rep):
    out = Outcome("C20")
    if rep.get("engine") == "logweights-program":
        from mici.utils import LogRepFloat

        progs, _ = E.run_spec("quick", "c20_replay")
        key = (rep["loads"], rep["ops"])
        viol, counts = [], {"values": 0, "comparisons": 0, "negative_differences": 0, "mixed": 0, "executions": 0}
        for p in progs:
            if (p["loads"], p["ops"]) == key:
                p["cmps"] = [tuple(x) for x in p["cmps"]]
                E.check_program(p, int(rep["base"]), LogRepFloat, viol, counts)
        if not counts["values"] and not viol:
            # a thorough-only program: re-run the thorough enumeration
            progs, _ = E.run_spec("thorough", "c20_replay")
            for p in progs:
                if (p["loads"], p["ops"]) == key:
                    p["cmps"] = [tuple(x) for x in p["cmps"]]
                    E.check_program(p, int(rep["base"]), LogRepFloat, viol, counts)
        for sig, what, rp in viol:
            out.violate(sig, what, rp)
        return out
    tier = rep.get("tier", "thorough")
    if rep.get("fn") == "offset":
        for sig, what, rp in E.offset_invariance(tier)[0]:
            if rp.get("args") == rep.get("args"):
                out.violate(sig, what, rp)
        return out
    for sig, what, rp in E.numeric_checks(tier, rep.get("seed", 0))[0]:
        if rp.get("fn") == rep.get("fn") and rp.get("args") == rep.get("args") and rp.get("seq") == rep.get("seq"):
            out.violate(sig, what, rp)
    return out
