"""Property-level orchestration for the Sampler engine: C13, C14, C15, C16."""

from __future__ import annotations

import shutil

import random
import time
from fractions import Fraction

import numpy as np

from mbv import sampler_engine as E
from mbv import tlc
from mbv.tlc import MachineryError
from mbv.verdict import Outcome

ASSUMPTIONS = [
    "values abstracted to ids (iteration count, stream position, parameter provenance); the probe transition/adapters make every recorded number identify its origin",
    "worker pool modelled with the iteration queue summarised to (completion messages, interrupt flag) and idle-worker symmetry breaking; per-iteration interleavings of up to 3 workers x 3 chains explored exhaustively",
    "interrupts are raised by user callbacks (transition / trace function) at a given call, one per run",
]


def _spec_and_real(out, pid, tier, seed, cfgs, variants, name):
    terms, stats = E.run_spec(cfgs, name, shards=14)
    records, n_real, seen = [], 0, set()
    for g, cfg in enumerate(cfgs):
        if g not in terms and not cfg.get("nproc_none"):
            raise MachineryError(f"no terminal state printed by TLC for configuration {g}")
        for v in variants(cfg):
            if v.pop("sigint", False):
                obs, evs = E.run_real_with_sigint(cfg, f"{name}_sigint"), None
            elif v.pop("child", False):
                # interrupts raised inside every worker by the callbacks (no signal to the parent); run in a
                # child process under a time limit because a mishandled interrupt can block the parent for ever
                obs, evs = E.run_real_with_sigint(cfg, f"{name}_child", timeout=40, send_signal=False,
                                                  one_pool=v.pop("onepool", False)), None
            elif v.pop("record", False):
                obs, evs = E.record_real(cfg, f"{name}_rec", **v)
            else:
                obs, evs = E.run_real(cfg, **v), None
            if obs.get("inconclusive"):
                out.drift(f"{obs['inconclusive']} ({cfg['layout']}, {cfg['nchain']} chains, nproc {cfg['nproc']}): run not judged")
                continue
            n_real += 1
            viol, drift = E.judge(cfg, obs, terms.get(g), storage=v.get("storage", "mem"),
                                  tag=(" delays" if v.get("delays") else ""))
            for owner, sig, what in viol:
                if owner == pid:
                    out.violate(sig, what, {"engine": "sampler", "cfg": cfg, "variant": v})
            for d in drift:
                out.drift(d)
            if evs is not None and obs["exception"] is None:
                records.append((g, obs, evs))
    rejected, res = E.validate_real_traces(cfgs, records, f"{name}_trace") if records else ([], None)
    for t, m in rejected:
        if t == -1:
            out.drift(str(m))
        else:
            g = records[t - 1][0]
            out.drift(f"real trace rejected by Trace_Sampler after {m} events: layout {cfgs[g]['layout']}, "
                      f"{cfgs[g]['nchain']} chains, {E._mode(cfgs[g])}, interrupt {cfgs[g]['intr']}")
    # self-test of the binding: a corrupted observation must be rejected
    if records:
        import copy
        g, obs, evs = records[0]
        bad = copy.deepcopy(obs)
        if bad["finals"]:
            bad["finals"][0][1] += 1
        rej2, _ = E.validate_real_traces(cfgs, [(g, bad, evs)], f"{name}_selftest")
        if not rej2:
            raise MachineryError("self-test failed: Trace_Sampler accepted a corrupted observation")
    bars_cov = {}
    if pid in ("C13", "C15") and records:
        # beyond the listed properties: the progress-display protocol (SamplerBars.tla), model checked on the same
        # configuration family and bound to the calls the real sample_chains made on the progress-bar objects
        bres = E.run_bars_spec([c for c in cfgs if not c.get("nproc_none")], f"{name}_bars")
        brej, bt = E.validate_real_traces(cfgs, records, f"{name}_bars_trace", bars=True)
        for t, m in brej:
            if t == -1:
                out.drift("display protocol: " + str(m))
            else:
                g = records[t - 1][0]
                out.drift(f"display protocol: real trace rejected by Trace_SamplerBars after {m} events: layout {cfgs[g]['layout']}, "
                          f"{cfgs[g]['nchain']} chains, {E._mode(cfgs[g])}, interrupt {cfgs[g]['intr']}")
        import copy
        g, obs, evs = next(((g, o, e) for g, o, e in records if any(x["ev"] == "BarUpd" for x in e)), (None, None, None))
        if evs is None:
            raise MachineryError("no progress-bar event was recorded (vacuous display-protocol validation)")
        bad = copy.deepcopy(evs)
        next(x for x in bad if x["ev"] == "BarUpd")["i"] += 1
        if not E.validate_real_traces(cfgs, [(g, obs, bad)], f"{name}_bars_selftest", bars=True)[0]:
            raise MachineryError("self-test failed: Trace_SamplerBars accepted a corrupted progress-bar event")
        bars_cov = {"display_protocol_states": bres.distinct, "display_protocol_traces_validated": len(records) - len([r for r in brej if r[0] != -1]),
                    "display_protocol_bar_events": sum(1 for _, _, e in records for x in e if x["ev"].startswith("Bar"))}
    out.coverage.update(bars_cov)
    out.coverage.update({
        "states": stats["distinct"] + (res.distinct if res else 0),
        "transitions": stats["generated"] + (res.generated if res else 0),
        "traces_validated_against_impl": len(records) - len([r for r in rejected if r[0] != -1]),
        "configurations": len(cfgs), "real_executions": n_real,
        "tlc_action_coverage": stats.get("action_coverage", {}),
        "layouts": sorted({c["layout"] for c in cfgs}),
        "modes": sorted({E._mode(c) for c in cfgs}),
    })
    return terms


def _sample(cfgs):
    c = cfgs[len(cfgs) // 2]
    return {"layout": c["layout"], "stages": c["stages"], "nchain": c["nchain"], "mode": E._mode(c), "intr": c["intr"]}


# --------------------------------------------------------------------------------------
def run_c13(tier, seed):
    out = Outcome("C13")
    cfgs = E.gen_configs(tier, seed, with_interrupts=False)

    def variants(cfg):
        vs = [{"record": True}]
        if cfg["nproc"] == 0 and not cfg.get("nproc_none"):
            vs += [{"storage": "memmap-temp"}, {"storage": "memmap-dir"}, {"init_kind": "dict"}]
            if cfg["nchain"] == 2:
                vs += [{"storage": "memmap-temp", "second_call": True}, {"storage": "mem", "second_call": True}]
        elif cfg["nchain"] == 2:
            vs += [{"storage": "memmap-dir"}]
        return vs

    _spec_and_real(out, "C13", tier, seed, cfgs, variants, f"c13_{tier}")
    # real samplers against a reference loop
    n_ref = 0
    for kw in hmc_reference_cases(tier):
        n_ref += 1
        diff = hmc_vs_reference(**kw)
        if diff:
            out.violate(f"C13:hmc-vs-reference:{kw['sampler']}:{'parallel' if kw['n_process'] > 1 else 'sequential'}:{diff[0]}",
                        f"{kw}: {diff[1]}", {"engine": "sampler-hmc-ref", "kw": kw})
    out.coverage["hmc_reference_runs"] = n_ref
    ns = 0
    for kind, what, rp in statless_sampler_checks():
        ns += 1
        if what:
            out.violate(f"C13:{kind}", what, rp)
    out.coverage["samplers_without_statistics"] = ns
    out.coverage["samples"] = [_sample(cfgs)]
    out.assumptions = ASSUMPTIONS
    return out


def hmc_reference_cases(tier):
    cases = []
    for sampler in ("static", "dynamic"):
        for n_process in (1, 2):
            for (nw, nm, tw) in ((0, 4, False), (3, 3, True), (3, 3, False)):
                cases.append(dict(sampler=sampler, n_process=n_process, n_warm=nw, n_main=nm, trace_warm_up=tw,
                                  nchain=2, force_memmap=(n_process == 1 and nw == 0)))
    cases = cases if tier == "thorough" else cases[::2] + cases[1:2]
    # the windowed stager given explicitly (also with nothing to adapt), warm-up traced
    cases.append(dict(sampler="static", n_process=1, n_warm=7, n_main=3, trace_warm_up=True, nchain=2, force_memmap=False, stager="windowed"))
    cases.append(dict(sampler="static", n_process=2, n_warm=4, n_main=2, trace_warm_up=False, nchain=2, force_memmap=False, stager="windowed"))
    # statistics-only runs (trace_funcs=None), warm-up recorded: both stagers, in memory and memory-mapped
    cases.append(dict(sampler="static", n_process=1, n_warm=7, n_main=3, trace_warm_up=True, nchain=2, force_memmap=False, stager="windowed",
                      trace_none=True))
    cases.append(dict(sampler="dynamic", n_process=1, n_warm=3, n_main=3, trace_warm_up=True, nchain=2, force_memmap=True, trace_none=True))
    if tier == "thorough":
        cases.append(dict(sampler="static", n_process=2, n_warm=5, n_main=2, trace_warm_up=True, nchain=3, force_memmap=True, stager="windowed",
                          trace_none=True))
        cases.append(dict(sampler="static", n_process=1, n_warm=4, n_main=2, trace_warm_up=False, nchain=2, force_memmap=False, stager="windowed",
                          trace_none=True))
    return cases


def hmc_vs_reference(*, sampler, n_process, n_warm, n_main, trace_warm_up, nchain, force_memmap, seed=11, stager=None, trace_none=False):
    """Run the real sampler without adapters and an independent plain loop over the same transitions
    and per-chain generators; returns None or (kind, description)."""
    import logging
    import warnings

    import mici
    from mici.samplers import _get_per_chain_rngs
    from mici.states import ChainState

    logging.disable(logging.CRITICAL)

    def build():
        system = mici.systems.EuclideanMetricSystem(E._nld, grad_neg_log_dens=E._gnld)
        integ = mici.integrators.LeapfrogIntegrator(system, step_size=0.35)
        rng = np.random.default_rng(seed)
        if sampler == "static":
            smp = mici.samplers.StaticMetropolisHMC(system, integ, rng, n_step=2)
        else:
            smp = mici.samplers.DynamicMultinomialHMC(system, integ, rng, max_tree_depth=3)
        return system, smp

    init = [np.array([0.3 * (c + 1), -0.2, 0.1 * c]) for c in range(nchain)]
    system, smp = build()
    with warnings.catch_warnings():
        warnings.simplefilter("ignore")
        stg = mici.stagers.WindowedWarmUpStager() if stager == "windowed" else None
        out = smp.sample_chains(n_warm, n_main, [x.copy() for x in init], adapters=[], n_process=n_process,
                                trace_funcs=None if trace_none else [E._IntrTrace(0)], trace_warm_up=trace_warm_up,
                                display_progress=False, force_memmap=force_memmap, stager=stg)
    # reference
    system2, smp2 = build()
    states = []
    for x in init:
        s = ChainState(pos=x.copy(), mom=None, dir=1)
        s.mom = system2.sample_momentum(s, smp2.rng)
        states.append(s)
    rngs = _get_per_chain_rngs(smp2.rng, nchain)
    total = n_warm + n_main
    for c in range(nchain):
        st, rows, acc = states[c], [], []
        for _ in range(total):
            for key, tr in smp2.transitions.items():
                st, stats = tr.sample(st, rngs[c])
                if key == "integration_transition":
                    acc.append(stats["accept_stat"])
            rows.append(np.array(st.pos))
        want_pos = rows if trace_warm_up else rows[n_warm:]
        want_acc = acc if trace_warm_up else acc[n_warm:]
        if not trace_none:
            got = np.asarray(out.traces["pos"][c])
            if got.shape[0] != len(want_pos):
                return ("length", f"chain {c}: {got.shape[0]} rows, expected {len(want_pos)}")
            if len(want_pos) and not np.array_equal(got, np.array(want_pos)):
                bad = int(np.argmax(np.any(got != np.array(want_pos), axis=1)))
                return ("rows", f"chain {c}: trace row {bad} differs from the reference loop")
        got_acc = np.asarray(out.statistics["accept_stat"][c])
        if got_acc.shape[0] != len(want_acc):
            return ("stats-length", f"chain {c}: {got_acc.shape[0]} statistics rows, expected {len(want_acc)}")
        if not np.array_equal(got_acc, np.array(want_acc)):
            return ("stats", f"chain {c}: accept_stat rows differ from the reference loop"
                    + (" (statistics-only run, trace_funcs=None)" if trace_none else ""))
        if not np.array_equal(out.final_states[c].pos, rows[-1] if rows else init[c]):
            return ("final", f"chain {c}: final state is not the state after the last iteration")
    return None


# --------------------------------------------------------------------------------------
def statless_sampler_checks():
    """A sampler none of whose transitions reports statistics (statistic_types = None): the traces are still
    complete and ordered, sequentially and in parallel.  Yields (signature, what | None, replay)."""
    import warnings

    from mici.samplers import MarkovChainMonteCarloMethod
    from mici.states import ChainState

    from mbv import sampler_probe as P

    for n_process, force_memmap in ((1, False), (2, False), (1, True)):
        rp = {"engine": "statless", "n_process": n_process, "force_memmap": force_memmap}
        mode = "parallel" if n_process > 1 else "sequential"
        try:
            sampler = MarkovChainMonteCarloMethod(rng=np.random.default_rng(3), transitions={"t": P.BareTransition()})
            with warnings.catch_warnings():
                warnings.simplefilter("ignore")
                out = sampler.sample_chains(2, 3, [ChainState(x=np.array([10.0 * c])) for c in (1, 2)], trace_funcs=[P.bare_trace],
                                            n_process=n_process, display_progress=False, trace_warm_up=True, force_memmap=force_memmap)
            rows = [np.asarray(a)[:, 0].tolist() for a in out.traces["x"]]
            want = [[10.0 * c + k for k in range(1, 6)] for c in (1, 2)]
            ok = rows == want and [float(s_.x[0]) for s_ in out.final_states] == [15.0, 25.0]
            yield (f"{mode}:no-statistics:trace-row", None if ok else
                   f"sampler without transition statistics ({mode}, force_memmap={force_memmap}): traces {rows}, expected {want}", rp)
        except Exception as e:  # noqa: BLE001
            yield (f"{mode}:exception-escapes:{type(e).__name__}:no-transition-statistics",
                   f"sample_chains raised {type(e).__name__}: {e} for a sampler none of whose transitions has statistic_types "
                   f"(None is documented as legal) ({mode}, force_memmap={force_memmap})", rp)


def run_c14(tier, seed):
    out = Outcome("C14")
    cfgs = [c for c in E.gen_configs(tier, seed, with_interrupts=False) if not c.get("nproc_none")]
    rnd = random.Random(seed)

    def variants(cfg):
        vs = [{"record": True}]
        if cfg["nproc"]:
            # perturb which worker takes which chain / completion order by per-chain delays
            pats = [{1: 0.02}, {cfg["nchain"]: 0.02}, {c: 0.005 * rnd.randint(0, 4) for c in range(1, cfg["nchain"] + 1)}]
            vs += [{"delays": p} for p in (pats if tier == "thorough" else pats[:2])]
        return vs

    _spec_and_real(out, "C14", tier, seed, cfgs, variants, f"c14_{tier}")
    # generator types, stream distinctness, chain-count independence on the real HMC sampler
    n = 0
    for kind, what in generator_checks(tier, seed):
        n += 1
        if what:
            out.violate(f"C14:{kind}", what, {"engine": "sampler-generators", "kind": kind})
    out.coverage["generator_and_hmc_checks"] = n
    out.coverage["samples"] = [_sample(cfgs)]
    out.assumptions = ASSUMPTIONS
    return out


def generator_checks(tier, seed):
    from mici.samplers import _get_per_chain_rngs

    import warnings

    gens = {
        "PCG64": lambda s: np.random.default_rng(s),
        "MT19937": lambda s: np.random.Generator(np.random.MT19937(s)),
        "Philox": lambda s: np.random.Generator(np.random.Philox(s)),
        "SFC64": lambda s: np.random.Generator(np.random.SFC64(s)),
    }
    for name, mk in gens.items():
        rngs = _get_per_chain_rngs(mk(seed + 5), 4)
        draws = [tuple(g.random(4)) for g in rngs]
        base = tuple(mk(seed + 5).random(4))
        ok = len(set(draws)) == 4
        yield (f"distinct-streams:{name}", None if ok else f"{name}: two chains share a random stream")
        # deterministic in the seed and independent of the number of chains
        again = [tuple(g.random(4)) for g in _get_per_chain_rngs(mk(seed + 5), 2)]
        alone = [tuple(g.random(4)) for g in _get_per_chain_rngs(mk(seed + 5), 1)]
        yield (f"chain-count-independence:{name}",
               None if again == draws[:2] and alone == draws[:1] else
               f"{name}: per-chain streams depend on the number of chains ({len(alone)} / 2 / 4 chains requested)")
    # real HMC: sequential == parallel, and chain c unaffected by the other chains
    base = E.hmc_run(adapters=(), n_warm=3, n_main=3, nchain=3, n_process=1, trace_warm_up=True)
    par = E.hmc_run(adapters=(), n_warm=3, n_main=3, nchain=3, n_process=2, trace_warm_up=True)
    yield ("hmc:sequential-vs-parallel",
           None if base["exception"] is None and base.get("pos_rows") == par.get("pos_rows")
           else f"real HMC results differ between n_process=1 and n_process=2 ({base['exception']}, {par['exception']})")
    two = E.hmc_run(adapters=(), n_warm=3, n_main=3, nchain=2, n_process=1, trace_warm_up=True)
    yield ("hmc:chain-count-independence:array-initial-states",
           None if two.get("pos_rows") == base.get("pos_rows", [])[:2] else
           "real HMC chain outputs depend on how many other chains are run when initial states are given as arrays "
           "(initial momenta are drawn from the shared base generator before the per-chain streams are derived from it)")
    b3 = E.hmc_run(adapters=(), n_warm=3, n_main=3, nchain=3, n_process=1, trace_warm_up=True, explicit_mom=True)
    b2 = E.hmc_run(adapters=(), n_warm=3, n_main=3, nchain=2, n_process=1, trace_warm_up=True, explicit_mom=True)
    yield ("hmc:chain-count-independence:explicit-momenta",
           None if b3["exception"] is None and b2.get("pos_rows") == b3.get("pos_rows", [])[:2] else
           "real HMC chain outputs depend on how many other chains are run even with caller-supplied initial momenta")
    # a stream is never replayed: every momentum drawn during a run (initial momenta of array initial states
    # included) is a fresh draw, so no two of them coincide
    for bg in ("PCG64", "MT19937", "SFC64"):
        r = E.hmc_run(adapters=(), n_warm=2, n_main=3, nchain=3, n_process=1, bitgen=bg, record_draws=True)
        dr = [tuple(d) for d in r["draws"]]
        yield (f"hmc:momentum-draws-distinct:{bg}",
               None if r["exception"] is None and len(dr) >= 3 * 5 and len(set(dr)) == len(dr) else
               f"real HMC ({bg}, array initial states, 3 chains): {len(dr) - len(set(dr))} of {len(dr)} momentum draws repeat an earlier "
               f"draw of the run -- a random stream was replayed ({r['exception']})")
    # ... also the momenta redrawn by the metric adapters when a slow window ends: the generator handed to every
    # momentum draw of the run (transitions and adapter finalisation) is in a state it has never been in before
    for bg in ("PCG64", "Philox") + (("MT19937", "SFC64") if tier == "thorough" else ()):
        r = E.hmc_run(adapters=("dual", "var"), stager="windowed-small", n_warm=14, n_main=3, nchain=2, n_process=1, bitgen=bg,
                      explicit_mom=True, record_draws=True)
        st = r.get("rng_states", [])
        yield (f"hmc:generator-state-never-repeats:metric-adaptation:{bg}",
               None if r["exception"] is None and len(st) >= 2 * 17 and len(set(st)) == len(st) else
               f"real HMC ({bg}, step-size and metric adaptation in windows, 2 chains): {len(st) - len(set(st))} of {len(st)} momentum draws "
               f"(transitions and adapter finalisation) start from a generator state already used earlier in the run -- a stream "
               f"was replayed ({r['exception']})")
    for bg in ("SFC64", "Philox", "MT19937"):
        c3 = E.hmc_run(adapters=(), n_warm=3, n_main=3, nchain=3, n_process=1, trace_warm_up=True, explicit_mom=True, bitgen=bg)
        c2 = E.hmc_run(adapters=(), n_warm=3, n_main=3, nchain=2, n_process=1, trace_warm_up=True, explicit_mom=True, bitgen=bg)
        c1 = E.hmc_run(adapters=(), n_warm=3, n_main=3, nchain=1, n_process=1, trace_warm_up=True, explicit_mom=True, bitgen=bg)
        yield (f"hmc:chain-count-independence:explicit-momenta:{bg}",
               None if c3["exception"] is None and c2.get("pos_rows") == c3.get("pos_rows", [])[:2]
               and c1.get("pos_rows") == c3.get("pos_rows", [])[:1] else
               f"real HMC ({bg}) chain outputs depend on how many other chains are run even with caller-supplied initial momenta")
    # whole generator state (buffered words included) carried across stages and processes
    for bg, smp, nw in (("Philox", "static", 5), ("PCG64", "random", 5), ("PCG64", "random", 4), ("SFC64", "random", 3)):
        q1 = E.hmc_run(sampler=smp, adapters=("dual",), n_warm=nw, n_main=4, nchain=2, n_process=1, bitgen=bg, explicit_mom=True)
        q2 = E.hmc_run(sampler=smp, adapters=("dual",), n_warm=nw, n_main=4, nchain=2, n_process=2, bitgen=bg, explicit_mom=True)
        yield (f"hmc:sequential-vs-parallel:{bg}:{smp}:{nw}",
               None if q1["exception"] is None and q1.get("pos_rows") == q2.get("pos_rows") else
               f"real {smp} HMC ({bg}, {nw} warm-up + 4 main iterations) differs between n_process=1 and n_process=2 "
               f"({q1['exception']}, {q2['exception']})")
    ad1 = E.hmc_run(adapters=("dual",), n_warm=6, n_main=3, nchain=2, n_process=1)
    ad2 = E.hmc_run(adapters=("dual",), n_warm=6, n_main=3, nchain=2, n_process=2)
    yield ("hmc:adaptive-sequential-vs-parallel",
           None if ad1.get("pos_rows") == ad2.get("pos_rows") and ad1["exception"] is None
           else f"real adaptive HMC results differ between n_process=1 and 2 (step sizes {ad1.get('final_step_size')} vs {ad2.get('final_step_size')})")
    if tier == "thorough":
        adv1 = E.hmc_run(adapters=("dual", "var"), stager="windowed-small", n_warm=14, n_main=3, nchain=2, n_process=1)
        adv2 = E.hmc_run(adapters=("dual", "var"), stager="windowed-small", n_warm=14, n_main=3, nchain=2, n_process=2)
        yield ("hmc:metric-adaptive-sequential-vs-parallel",
               None if adv1.get("pos_rows") == adv2.get("pos_rows") and adv1["exception"] is None
               else "real HMC with metric adaptation differs between n_process=1 and 2")


# --------------------------------------------------------------------------------------
def run_c15(tier, seed):
    out = Outcome("C15")
    out.level = "fault_enumeration" if False else "model_checking"
    cfgs = E.gen_configs(tier, seed, with_interrupts=True)

    def variants(cfg):
        if cfg["intr"]["chain"] == 0 and cfg["nproc"]:
            # a real SIGINT to the whole process group; and the same interrupt raised by the callbacks in
            # every worker only
            # ... and the same again on the schedule in which ONE pool process runs both worker tasks one after the other
            return [{"sigint": True}, {"child": True}, {"child": True, "onepool": True}]
        vs = [{"record": True}]
        if cfg["nproc"] == 0 and cfg["nchain"] == 2:
            vs += [{"storage": "memmap-dir"}, {"storage": "memmap-dir-reused"}]
        elif cfg["nproc"] == 2 and cfg["nchain"] == 2 and cfg["intr"]["chain"] != 0:
            vs += [{"storage": "memmap-dir-reused"}]
        return vs

    _spec_and_real(out, "C15", tier, seed, cfgs, variants, f"c15_{tier}")
    # the library's own adapters / stagers under an interrupt at every trace-function call
    n = 0
    for kw in hmc_interrupt_cases(tier):
        n += 1
        r = E.hmc_run(**kw)
        mode = "parallel" if kw["n_process"] > 1 else "sequential"
        if r["exception"] is not None:
            out.violate(f"C15:{mode}:exception-escapes:{r['exception'].split(':')[0]}:adapters={'+'.join(kw['adapters'])}",
                        f"interrupted real HMC run raised {r['exception']} instead of returning: {kw}",
                        {"engine": "sampler-hmc", "kw": kw})
            continue
        if not r["finite_final"] or r["n_final"] < 1:
            out.violate(f"C15:{mode}:hmc-final-states", f"interrupted real HMC run returned invalid final states: {kw}",
                        {"engine": "sampler-hmc", "kw": kw})
        ref = E.hmc_run(**{**kw, "intr_call": 0})
        for c, rows in enumerate(r["pos_rows"]):
            for i, row in enumerate(rows):
                if not (np.all(np.isnan(row)) or row == ref["pos_rows"][c][i]):
                    out.violate(f"C15:{mode}:hmc-row-not-prefix",
                                f"interrupted real HMC run: chain {c} row {i} differs from the uninterrupted run: {kw}",
                                {"engine": "sampler-hmc", "kw": kw})
                    break
    out.coverage["hmc_interrupt_runs"] = n
    out.coverage["samples"] = [_sample(cfgs)]
    out.assumptions = ASSUMPTIONS
    return out


def hmc_interrupt_cases(tier):
    cases = []
    calls = range(2, 26) if tier == "thorough" else (2, 4, 7, 8, 11, 14, 17, 22)
    for k in calls:
        cases.append(dict(adapters=("dual", "var"), stager="windowed-small", n_warm=10, n_main=3, nchain=2,
                          n_process=1, intr_call=k, trace_warm_up=True))
    for k in ((3, 9, 15) if tier == "quick" else (3, 6, 9, 12, 15, 18)):
        cases.append(dict(adapters=("dual", "cov"), stager="windowed-small", n_warm=10, n_main=3, nchain=2,
                          n_process=2, intr_call=k, trace_warm_up=True))
        cases.append(dict(adapters=("dual",), stager="default", n_warm=4, n_main=4, nchain=3,
                          n_process=1, intr_call=k, trace_warm_up=False))
    return cases


# --------------------------------------------------------------------------------------
def run_c16(tier, seed):
    out = Outcome("C16")
    cfgs = [c for c in E.gen_configs(tier, seed, with_interrupts=False) if not c.get("nproc_none")]

    def variants(cfg):
        return [{"record": True}]

    _spec_and_real(out, "C16", tier, seed, cfgs, variants, f"c16_{tier}")
    st = stager_partition(out, tier)
    out.coverage.update(st)
    out.coverage.update(stager_model(out, tier))
    out.coverage.update(stager_unbounded(tier))
    n = 0
    for kind, what, rp in hmc_adaptation_checks(tier):
        n += 1
        if what:
            out.violate(f"C16:{kind}", what, rp)
    out.coverage["hmc_adaptation_runs"] = n
    nd = 0
    for kind, what, rp in default_stager_rule():
        nd += 1
        if what:
            out.violate(f"C16:{kind}", what, rp)
    out.coverage["default_stager_layouts"] = nd
    out.coverage["samples"] = [_sample(cfgs)]
    out.assumptions = ASSUMPTIONS
    return out


class _A:
    def __init__(self, fast, i):
        self.is_fast, self.i = fast, i


def stager_partition(out, tier):
    """Real Stager.stages(...) outputs for a sweep of requests, judged by TLC (Stager.tla)."""
    import mici.stagers as S

    reqs = []
    settings = [("windowed", {}), ("windowed", dict(n_init_slow_window_iter=2, n_init_fast_stage_iter=3, n_final_fast_stage_iter=2)),
                ("windowed", dict(n_init_slow_window_iter=10, n_init_fast_stage_iter=0, n_final_fast_stage_iter=0)),
                ("windowed", dict(n_init_slow_window_iter=5, n_init_fast_stage_iter=5, n_final_fast_stage_iter=5, slow_window_multiplier=1.5)),
                ("windowed", dict(n_init_slow_window_iter=1, n_init_fast_stage_iter=1, n_final_fast_stage_iter=1, slow_window_multiplier=3.0)),
                ("warmup", {})]
    mixes = [(1, 1), (1, 0), (0, 1), (2, 1)]
    nwarms = range(0, 601) if tier == "thorough" else list(range(0, 160)) + list(range(160, 601, 7))
    for kind, kw in settings:
        stager = S.WindowedWarmUpStager(**kw) if kind == "windowed" else S.WarmUpStager()
        for nw in nwarms:
            for (nf, ns) in (mixes if nw % 10 == 0 or nw < 30 else mixes[:1]):
                for nm in ((0, 5) if nw % 25 == 0 else (5,)):
                    for tw, has_tf in (((True, True), (False, True), (True, False), (False, False)) if nw % 50 == 0 else
                                       ((False, True), (True, False)) if nw % 10 == 3 else ((False, True),)):
                        fast = [_A(True, i) for i in range(nf)]
                        slow = [_A(False, 10 + i) for i in range(ns)]
                        ads = {"t": fast + slow}
                        try:
                            stages = stager.stages(nw, nm, ads, [lambda s: {}] if has_tf else None, trace_warm_up=tw)
                        except Exception as e:  # noqa: BLE001
                            out.violate(f"C16:stager:{kind}:exception:{type(e).__name__}",
                                        f"{kind} stager raised {e!r} for n_warm_up={nw}, n_main={nm}, settings {kw}",
                                        {"engine": "stager", "kind": kind, "kw": kw, "nw": nw, "nm": nm})
                            continue
                        rec = {"kind": kind, "nwarm": nw, "nmain": nm, "fast": {a.i for a in fast},
                               "slow": {a.i for a in slow}, "tracewarm": tw, "hastrace": has_tf, "kw": kw, "stages": []}
                        for label, stg in stages.items():
                            ids = {a.i for al in (stg.adapters or {}).values() for a in al}
                            rec["stages"].append({"label": label, "n": int(stg.n_iter), "adapters": ids,
                                                  "traced": stg.trace_funcs is not None, "stats": bool(stg.record_stats),
                                                  "slow": label.startswith("Slow")})
                        reqs.append(rec)

    def setl(s):
        return "{" + ", ".join(str(x) for x in sorted(s)) + "}"

    def req_tla(r):
        stages = "<<" + ", ".join(
            '[label |-> %s, n |-> %d, adapters |-> %s, traced |-> %s, stats |-> %s, slow |-> %s]' % (
                tlc.tla_str(s["label"]), s["n"], setl(s["adapters"]), tlc.to_tla(s["traced"]), tlc.to_tla(s["stats"]),
                tlc.to_tla(s["slow"])) for s in r["stages"]) + ">>"
        return '[kind |-> %s, nwarm |-> %d, nmain |-> %d, fast |-> %s, slow |-> %s, tracewarm |-> %s, hastrace |-> %s, stages |-> %s]' % (
            tlc.tla_str(r["kind"]), r["nwarm"], r["nmain"], setl(r["fast"]), setl(r["slow"]), tlc.to_tla(r["tracewarm"]),
            tlc.to_tla(r["hastrace"]), stages)

    invs = ["NonNegative", "WarmUpSumsExactly", "MainStageLast", "NoMainWhenZero", "FastEverywhere",
            "SlowOnlyInWindows", "SlowInAllWindows", "WarmUpTracing"]
    d = tlc.fresh_dir(f"c16_stager_{tier}")
    tlc.stage_specs(d, ["Stager.tla"])
    pending = list(range(len(reqs)))
    states = 0
    guard = 0
    while pending and guard < 12:
        guard += 1
        (d / "StagerData.tla").write_text("---- MODULE StagerData ----\nRequests == <<\n " + ",\n ".join(
            req_tla(reqs[i]) for i in pending) + "\n>>\n====\n")
        cfg = "SPECIFICATION Spec\n" + "".join(f"INVARIANT {i}\n" for i in invs) + "CHECK_DEADLOCK FALSE\n"
        res = tlc.run_tlc(d, "Stager", cfg, workers=4, timeout=600, cpus=4)
        states += res.distinct
        if res.ok:
            break
        if res.error_kind != "invariant" or not res.trace:
            raise MachineryError(f"Stager.tla run failed: {res.violated}\n{res.stdout[-1500:]}")
        qi = res.trace[-1]["q"]
        r = reqs[pending[qi - 1]]
        out.violate(f"C16:stager:{r['kind']}:{res.violated}",
                    f"{r['kind']} stager (settings {r['kw']}) violates {res.violated} for n_warm_up={r['nwarm']}, n_main={r['nmain']}, "
                    f"{len(r['fast'])} fast / {len(r['slow'])} slow adapters: stages {[(s['label'], s['n']) for s in r['stages']]}",
                    {"engine": "stager", "request": {k: (sorted(v) if isinstance(v, set) else v) for k, v in r.items() if k != "stages"}})
        # drop every request with the same (kind, settings) and continue with the rest
        pending = [i for i in pending if not (reqs[i]["kind"] == r["kind"] and reqs[i]["kw"] == r["kw"])]
    return {"stager_requests": len(reqs), "stager_states": states}


def stager_model(out, tier):
    """StagerModel.tla: the windowed schedule as a state machine, model checked for EVERY request up to a bound
    (partition, growth, termination of the window loop); every terminal state is then demanded from the real
    WindowedWarmUpStager."""
    from fractions import Fraction

    import mici.stagers as S

    settings = [(75, 25, 50, 2, 1), (3, 2, 2, 2, 1), (0, 10, 0, 2, 1), (5, 5, 5, 3, 2), (1, 1, 1, 3, 1), (2, 1, 0, 1, 1), (0, 3, 4, 5, 4)]
    max_warm = 130
    if tier == "thorough":
        settings += [(f, w, e, mn, md) for f in (0, 1, 4, 30) for w in (1, 2, 7, 20) for e in (0, 3, 25) for (mn, md) in ((2, 1), (1, 1), (7, 4), (5, 2))]
        settings = sorted(set(settings))
        max_warm = 400
    d = tlc.fresh_dir(f"c16_stagermodel_{tier}")
    tlc.stage_specs(d, ["StagerModel.tla"])
    (d / "MCStagerModel.tla").write_text(
        "---- MODULE MCStagerModel ----\nEXTENDS StagerModel\nSettingsDef == {" + ", ".join(
            "[f |-> %d, w |-> %d, e |-> %d, mn |-> %d, md |-> %d]" % s_ for s_ in settings) + "}\n====\n")
    invs = ["TypeOK", "NeverOvershoots", "WindowsNonEmpty", "SumsExactly", "WindowsGrow", "RemainderFits", "SplitRespected",
            "SingleWindowWhenSmall", "Export"]
    cfg = ("SPECIFICATION Spec\nCONSTANTS\n  MaxWarm = %d\n  Settings <- SettingsDef\n" % max_warm
           + "".join(f"INVARIANT {i}\n" for i in invs) + "PROPERTY Termination\n")
    res = tlc.run_tlc(d, "MCStagerModel", cfg, workers=8, timeout=1500, cpus=8, deadlock=False)
    if not res.ok:
        raise MachineryError(f"StagerModel.tla violates its own properties: {res.violated}\n{res.stdout[-1500:]}")
    recs = [r for r in res.printed if isinstance(r, dict) and "windows" in r]
    if len(recs) != len(settings) * (max_warm + 1):
        raise MachineryError(f"StagerModel export incomplete: {len(recs)} of {len(settings) * (max_warm + 1)} requests")
    n_multi = 0
    ads = {"t": [_A(True, 0), _A(False, 10)]}
    for r in recs:
        kw = dict(n_init_fast_stage_iter=r["f"], n_init_slow_window_iter=r["w"], n_final_fast_stage_iter=r["e"],
                  slow_window_multiplier=float(Fraction(r["mn"], r["md"])))
        rp = {"engine": "stager-model", "kw": kw, "nw": r["n"]}
        try:
            stages = S.WindowedWarmUpStager(**kw).stages(r["n"], 3, ads, [lambda s: {}])
        except Exception as e:  # noqa: BLE001
            out.violate(f"C16:stager:windowed:exception:{type(e).__name__}", f"windowed stager raised {e!r} for n_warm_up={r['n']}, settings {kw}", rp)
            continue
        real = [int(stg.n_iter) for label, stg in stages.items() if label != "Main non-adaptive"]
        want = ([r["fast0"]] + list(r["windows"]) + [r["fast1"]]) if r["n"] > 0 else []
        n_multi += len(r["windows"]) > 1
        if real == want:
            continue
        wins = real[1:-1]
        if sum(real) != r["n"]:
            out.violate("C16:stager:windowed:WarmUpSumsExactly", f"windowed stager (settings {kw}): warm-up stages {real} do not sum to n_warm_up={r['n']} "
                        f"(the documented schedule is {want})", rp)
        elif any(a > b for a, b in zip(wins, wins[1:])) or any(w < 1 for w in wins):
            out.violate("C16:stager:windowed:WindowsGrow", f"windowed stager (settings {kw}, n_warm_up={r['n']}): slow windows {wins} are not growing "
                        f"(the documented schedule is {want})", rp)
        else:
            out.drift(f"windowed stager (settings {kw}, n_warm_up={r['n']}) schedules {real}, StagerModel.tla {want}")
    if not n_multi:
        raise MachineryError("StagerModel: no request with more than one slow window (vacuous)")
    return {"stager_model_states": res.distinct, "stager_model_requests": len(recs), "stager_model_multiwindow": n_multi}


STAGER_IND_VARS = ["f", "w", "e", "n", "pc", "fast0", "fast1", "budget", "window", "counter", "nwin", "lastwin"]


def stager_unbounded(tier):
    """StagerInd.tla (the actions of StagerModel.tla without the window history) with Apalache: an inductive
    invariant gives the partition / progress properties for EVERY request and window setting (unbounded
    integers), the multiplier being fixed per run."""
    from concurrent.futures import ThreadPoolExecutor

    from mbv import apalache

    mults = [(2, 1)] if tier == "quick" else [(2, 1), (3, 2), (1, 1), (3, 1), (5, 4), (7, 4), (5, 2)]
    d = tlc.fresh_dir(f"c16_stagerind_{tier}")
    tlc.stage_specs(d, ["StagerInd.tla"])
    decl = "VARIABLES\n" + ",\n".join(f"  \\* @type: {'Str' if v == 'pc' else 'Int'};\n  {v}" for v in STAGER_IND_VARS)

    def one(m):
        mn, md = m
        name = f"MC_StagerInd_{mn}_{md}"
        sub = d / name
        sub.mkdir()
        shutil.copy(d / "StagerInd.tla", sub / "StagerInd.tla")
        (sub / f"{name}.tla").write_text(f"---- MODULE {name} ----\nEXTENDS Integers\nMN == {mn}\nMD == {md}\n{decl}\nINSTANCE StagerInd\n====\n")
        return m, apalache.inductive(sub, f"{name}.tla", init="Init", ind_init="IndInit", ind_inv="IndInv",
                                     safety=["Safe", "Progressing"], action_invs=["Variant"], timeout=900)

    with ThreadPoolExecutor(max_workers=4) as ex:
        results = list(ex.map(one, mults))
    for (mn, md), r in results:
        bad = [k for k, v in r.items() if not v]
        if bad:
            raise MachineryError(f"StagerInd.tla: inductive argument fails for multiplier {mn}/{md}: {bad}")
    return {"stager_unbounded_multipliers": [f"{a}/{b}" for a, b in mults],
            "stager_unbounded_obligations": sum(len(r) for _, r in results)}


def default_stager_rule():
    """sample_chains without an explicit stager, adapters on several transitions: the documented default is the
    single-stage warm-up stager if there are no adapters or ALL adapters (of all transitions) are fast, else the
    windowed stager -- so slow adapters are active only in the growing slow windows and fast adapters in all warm-up
    stages, and nothing adapts in the main stage.  Observed through recording adapters (which iterations each
    adapter was updated in).  Yields (signature, what | None, replay)."""
    import warnings

    from mici.adapters import Adapter
    from mici.samplers import MarkovChainMonteCarloMethod
    from mici.stagers import WindowedWarmUpStager
    from mici.states import ChainState
    from mici.transitions import Transition

    class Count(Transition):
        state_variables = {"x"}
        statistic_types = {"k": (np.int64, -1)}

        def sample(self, state, rng):
            state.x = state.x + 1.0
            return state, {"k": int(state.x[0])}

    class Noop(Count):
        statistic_types = None

        def sample(self, state, rng):
            return state, None

    class Rec(Adapter):
        def __init__(self, fast):
            self._fast, self.seen = fast, []

        is_fast = property(lambda self: self._fast)

        def initialize(self, chain_state, transition):
            return {"n": 0}

        def update(self, adapt_state, chain_state, trans_stats, transition):
            self.seen.append(int(chain_state.x[0]))

        def finalize(self, adapt_states, chain_states, transition, rngs):
            pass

    n_warm, n_main = 200, 4
    ref = WindowedWarmUpStager().stages(n_warm, n_main, {"t": [Rec(True), Rec(False)]}, [])
    bounds, k = [], 0
    for label, st in ref.items():
        bounds.append((label, k + 1, k + st.n_iter))
        k += st.n_iter
    slow_iters = {i for label, a, b in bounds if label.startswith("Slow") for i in range(a, b + 1)}
    warm_iters = set(range(1, n_warm + 1))
    layouts = {"fast|fast+slow": {"t1": [True], "t2": [True, False]}, "none|slow": {"t1": [], "t2": [False]},
               "fast|fast": {"t1": [True], "t2": [True]}, "slow": {"t2": [False]}, "fast+slow|fast": {"t1": [True, False], "t2": [True]}}
    for name, lay in layouts.items():
        ads = {k_: [Rec(f) for f in fl] for k_, fl in lay.items()}
        sampler = MarkovChainMonteCarloMethod(rng=np.random.default_rng(1), transitions={"t1": Count(), "t2": Noop()})
        rp = {"engine": "default-stager", "layout": name}
        try:
            with warnings.catch_warnings():
                warnings.simplefilter("ignore")
                sampler.sample_chains(n_warm, n_main, [ChainState(x=np.zeros(1))], adapters=ads, n_process=1,
                                      trace_funcs=[lambda s: {"x": s.x}], display_progress=False)
        except Exception as e:  # noqa: BLE001
            yield (f"default-stager:{name}:exception:{type(e).__name__}", f"sample_chains with adapters {lay} and no stager raised {e!r}", rp)
            continue
        any_slow = any(not f for fl in lay.values() for f in fl)
        bad = None
        for key, lst in ads.items():
            for a in lst:
                got = set(a.seen)
                want = warm_iters if (a.is_fast or not any_slow) else slow_iters
                if got != want:
                    bad = (f"{'fast' if a.is_fast else 'slow'} adapter of transition {key} was updated in iterations "
                           f"{_ranges(got)}; by the documented default stager ({'windowed' if any_slow else 'single warm-up stage'}) it is active in {_ranges(want)}")
        yield (f"default-stager:{name}", None if bad is None else f"adapters {lay}, stager=None, {n_warm} warm-up + {n_main} main iterations: {bad}", rp)


def _ranges(s):
    s = sorted(s)
    out, i = [], 0
    while i < len(s):
        j = i
        while j + 1 < len(s) and s[j + 1] == s[j] + 1:
            j += 1
        out.append(f"{s[i]}-{s[j]}" if j > i else f"{s[i]}")
        i = j + 1
    return ",".join(out) or "none"


def hmc_adaptation_checks(tier):
    """Real adapters + real stagers: parameters frozen in the main stage and equal to the values
    finalised by the last stage that performed an update (zero-iteration stages change nothing)."""
    cases = [dict(adapters=("dual",), stager="windowed", n_warm=5, n_main=4),
             dict(adapters=("dual",), stager="windowed", n_warm=9, n_main=3),
             dict(adapters=("dual", "var"), stager="windowed", n_warm=8, n_main=3),
             dict(adapters=("dual",), stager="default", n_warm=6, n_main=4),
             dict(adapters=("dual", "var"), stager="windowed-small", n_warm=12, n_main=3),
             dict(adapters=("dual", "cov"), stager="windowed-small", n_warm=12, n_main=3, n_process=2),
             dict(adapters=("dual",), stager="windowed", n_warm=5, n_main=4, n_process=2)]
    if tier == "thorough":
        cases += [dict(adapters=("dual",), stager="windowed", n_warm=n, n_main=3) for n in range(1, 20)]
        cases += [dict(adapters=("dual", "var"), stager="windowed", n_warm=n, n_main=3) for n in (3, 6, 10, 13, 21)]
    for kw in cases:
        r = E.hmc_run(nchain=2, **kw)
        rp = {"engine": "sampler-hmc", "kw": kw}
        if r["exception"] is not None:
            yield ("hmc:exception", f"real adaptive HMC run raised {r['exception']}: {kw}", rp)
            continue
        rows = [x for ch in r["step_size_rows"] for x in ch]
        if len(set(rows)) != 1:
            yield ("hmc:main-stage-step-size-changes", f"step size changes during the main stage {sorted(set(rows))}: {kw}", rp)
            continue
        if rows[0] != r["final_step_size"]:
            yield ("hmc:main-stage-step-size-not-final", f"main stage step size {rows[0]} is not the finalised value {r['final_step_size']}: {kw}", rp)
            continue
        if "dual" in kw["adapters"] and rows[0] == 1.0:
            yield ("hmc:default-step-size-leaks", f"main stage ran with the dual-averaging default exp(0) = 1.0 "
                   f"(a stage without iterations finalised the adapter): {kw}", rp)
            continue
        yield ("hmc:ok", None, rp)


def replay(pid, rep):
    out = Outcome(pid)
    if rep.get("engine") == "sampler":
        cfg, v = rep["cfg"], dict(rep.get("variant") or {})
        v.pop("record", None)
        if v.get("delays"):
            v["delays"] = {int(k): x for k, x in v["delays"].items()}
        obs = E.run_real(cfg, **v)
        viol, _ = E.judge(cfg, obs, None, storage=v.get("storage", "mem"))
        for owner, sig, what in viol:
            if owner == pid:
                out.violate(sig, what, rep)
    elif rep.get("engine") == "sampler-hmc":
        r = E.hmc_run(nchain=rep["kw"].pop("nchain", 2), **rep["kw"])
        if r["exception"] is not None:
            out.violate("replay", r["exception"], rep)
    return out
