"""Engine for specs/Sampler.tla (C13, C14, C15, C16)."""

from __future__ import annotations

import copy
import json
import logging
import os
import random
import shutil
import tempfile
import warnings
from concurrent.futures import ThreadPoolExecutor
from pathlib import Path

import numpy as np

from mbv import tlc
from mbv.tlc import MachineryError

# --------------------------------------------------------------------------------------
# configurations
# --------------------------------------------------------------------------------------
def st(n, adapters=(), traced=True, stats=True):
    return {"n": n, "adapters": sorted(adapters), "traced": traced, "stats": stats}


LAYOUTS = {
    "main": [st(3)],
    "warm+main": [st(2, ["fast"], False, False), st(2)],
    "traced-warm+main": [st(2, ["fast"], True, True), st(2)],
    "windowed": [st(1, ["fast"], False, False), st(2, ["fast", "slow"], False, False),
                 st(1, ["fast"], False, False), st(2)],
    "windowed-zero-final": [st(1, ["fast"], False, False), st(2, ["fast", "slow"], False, False),
                            st(0, ["fast"], False, False), st(2)],
    "zero-first": [st(0, ["fast"], True, True), st(2, ["fast", "slow"], True, True), st(2)],
    "stats-only-warm": [st(2, ["slow"], False, True), st(1, [], True, False), st(2)],
    "warm-only": [st(2, ["fast"], True, True)],
    "slow-only-empty-fast": [st(1, [], False, False), st(2, ["slow"], False, False), st(2)],
}


def nrows(layout):
    return sum(s["n"] for s in layout if s["traced"] or s["stats"])


def make_cfg(layout_name, nchain, nproc, intr=None, nproc_none=False, initfail=None):
    layout = LAYOUTS[layout_name]
    return {"layout": layout_name, "nchain": nchain, "nproc": nproc, "nrows": nrows(layout),
            "stages": copy.deepcopy(layout), "nproc_none": nproc_none,
            "intr": intr or {"stage": 0, "chain": 0, "k": 0, "site": "none"},
            "initfail": initfail or {"stage": 0, "chain": 0}}


def interrupts_of(layout_name, nchain):
    out = []
    for s, stg in enumerate(LAYOUTS[layout_name], start=1):
        for c in range(1, nchain + 1):
            for k in range(1, stg["n"] + 1):
                out.append({"stage": s, "chain": c, "k": k, "site": "trans"})
                if stg["traced"]:
                    out.append({"stage": s, "chain": c, "k": k, "site": "trace"})
    return out


def gen_configs(tier, seed, *, with_interrupts):
    rnd = random.Random(seed * 7919 + (3 if with_interrupts else 1))
    cfgs = []
    names = list(LAYOUTS)
    for name in names:
        for nchain in (1, 2, 3):
            for nproc in (0, 2, 3):
                if nproc and nchain == 1 and name not in ("main", "warm+main"):
                    continue
                if nproc == 3 and not (tier == "thorough" or (name in ("main", "warm+main") and nchain == 3)):
                    continue
                if not with_interrupts:
                    cfgs.append(make_cfg(name, nchain, nproc))
                else:
                    its = interrupts_of(name, nchain)
                    if nproc:
                        its = rnd.sample(its, min(len(its), 2 if tier == "quick" else 6))
                    elif tier == "quick" and len(its) > 8:
                        its = rnd.sample(its, 8)
                    for it in its:
                        cfgs.append(make_cfg(name, nchain, nproc, it))
    if not with_interrupts:
        cfgs.append(make_cfg("warm+main", 2, 3, nproc_none=True))
        # an adapter cannot be initialised for one chain (AdaptationError, documented as non-fatal)
        for name, stage in (("warm+main", 1), ("windowed", 2), ("warm-only", 1), ("traced-warm+main", 1)):
            for nchain, nproc, chain in ((2, 0, 1), (3, 0, 2), (3, 2, 3), (2, 2, 1)):
                cfgs.append(make_cfg(name, nchain, nproc, initfail={"stage": stage, "chain": chain}))
    else:
        # process-group interrupts (chain = 0): every chain running at that point is interrupted
        for name, s_, k_, site in (("warm+main", 1, 2, "trans"), ("traced-warm+main", 1, 1, "trace"),
                                   ("traced-warm+main", 2, 2, "trace"), ("windowed", 2, 1, "trans")):
            for nchain, nproc in ((2, 0), (2, 2), (3, 3), (3, 2)):
                cfgs.append(make_cfg(name, nchain, nproc, {"stage": s_, "chain": 0, "k": k_, "site": site}))
        # an interrupt in a later chain of the very stage in which an earlier chain was dropped because an adapter could
        # not be initialised for it (two handled per-chain events in one sequential stage: the interrupt must win)
        for name, stage, k_ in (("warm+main", 1, 1), ("windowed", 2, 1), ("traced-warm+main", 1, 2)):
            for nchain, bad, hit in ((2, 1, 2), (3, 1, 3), (3, 2, 3)):
                cfgs.append(make_cfg(name, nchain, 0, {"stage": stage, "chain": hit, "k": k_, "site": "trans"},
                                     initfail={"stage": stage, "chain": bad}))
    return cfgs


def consts_module(cfgs):
    def cfg_tla(c):
        stages = "<<" + ", ".join(
            "[n |-> %d, adapters |-> %s, traced |-> %s, stats |-> %s]" % (
                s["n"], tlc.to_tla(set(s["adapters"])) if s["adapters"] else "{}",
                tlc.to_tla(s["traced"]), tlc.to_tla(s["stats"])) for s in c["stages"]) + ">>"
        return ("[nchain |-> %d, nproc |-> %d, nrows |-> %d, stages |-> %s, intr |-> %s, initfail |-> %s]" % (
            c["nchain"], c["nproc"], c["nrows"], stages, tlc.to_tla(c["intr"]),
            tlc.to_tla(c.get("initfail") or {"stage": 0, "chain": 0})))

    return ("---- MODULE SamplerConsts ----\nEXTENDS Integers, Sequences\nSCfgs == <<\n "
            + ",\n ".join(cfg_tla(c) for c in cfgs) + "\n>>\nSCfgSet == 1..Len(SCfgs)\n====\n")


CFG = """SPECIFICATION Spec
INVARIANT TypeOK
INVARIANT RowsExact
INVARIANT NoReplay
INVARIANT StreamsCarried
INVARIANT PrefixOnInterrupt
INVARIANT MainFrozen
INVARIANT PrintTerminal
PROPERTY Progress
CHECK_DEADLOCK TRUE
"""


def run_spec(cfgs, name, shards=8, timeout=1500):
    n = len(cfgs)
    shards = max(1, min(shards, n))
    parts = [list(range(i, n, shards)) for i in range(shards)]

    def one(a):
        idx, part = a
        d = tlc.fresh_dir(f"{name}_shard{idx}")
        tlc.stage_specs(d, ["Sampler.tla"])
        (d / "SamplerConsts.tla").write_text(consts_module([cfgs[i] for i in part]))
        return tlc.run_tlc(d, "Sampler", CFG, workers=2, timeout=timeout, cpus=2, heap="3g", dump_trace=True, coverage=True)

    with ThreadPoolExecutor(max_workers=shards) as ex:
        results = list(ex.map(one, enumerate(parts)))
    terminals, gen, dist = {}, 0, 0
    cover = {}
    for part, res in zip(parts, results):
        gen += res.generated
        dist += res.distinct
        for a, (dst, gn) in res.coverage.items():
            cover[a] = cover.get(a, 0) + gn
        if not res.ok:
            raise MachineryError(f"Sampler.tla violates its own property {res.violated}:\n{res.stdout[-3000:]}")
        for r in res.printed:
            if isinstance(r, dict) and "ci" in r:
                g = part[r["ci"] - 1]
                key = json.dumps({k: r[k] for k in ("finals", "tr", "sr", "param", "stagesRun")}, sort_keys=True)
                terminals.setdefault(g, {})[key] = r
    # vacuity guard: every action of the specification must have been taken in this family
    never = sorted(a for a, n_ in cover.items() if n_ == 0 and a not in ("ReturnEmpty",))
    seq_only = all(c["nproc"] == 0 for c in cfgs)
    par_only = all(c["nproc"] > 0 for c in cfgs)
    never = [a for a in never if not (seq_only and a.startswith(("Worker", "Parent"))) and not (par_only and a.startswith("Seq"))]
    if never and len(cfgs) > 20:
        raise MachineryError(f"vacuity: actions of Sampler.tla never taken in this configuration family: {never}")
    return terminals, {"generated": gen, "distinct": dist, "action_coverage": cover}


# --------------------------------------------------------------------------------------
# real runs
# --------------------------------------------------------------------------------------
BITGENS = ("PCG64", "Philox", "MT19937", "SFC64")


def make_rng(bitgen, seed):
    return np.random.Generator(getattr(np.random, bitgen)(seed))


def cfg_rng(cfg):
    """Generator family and draw kind of a configuration: a deterministic function of the configuration so
    that the family as a whole covers every bit generator with both draw kinds without more runs."""
    h = (cfg["nchain"] * 7 + cfg["nproc"] * 3 + len(cfg["stages"]) * 5 + sum(s["n"] for s in cfg["stages"])
         + cfg["intr"]["stage"] * 11 + cfg["intr"]["k"] * 13 + cfg["intr"]["chain"])
    return cfg.get("bitgen") or BITGENS[h % 4], cfg.get("draw") or ("uint32", "double")[(h // 4) % 2]


def expected_streams(seed, nchain, total, bitgen="PCG64", kind="double"):
    from mici.samplers import _get_per_chain_rngs

    from mbv import sampler_probe as P

    rngs = _get_per_chain_rngs(make_rng(bitgen, seed), nchain)
    out = []
    for g in rngs:
        m = {}
        for j in range(total + 2):
            v = P.draw(g, kind)
            if v in m:
                raise MachineryError("probe draws collide: stream positions cannot be decoded")
            m[v] = j + 1
        out.append(m)
    return out


def run_real(cfg, *, seed=1234, storage="mem", delays=None, event_dir=None, init_kind="state", second_call=False,
             signal_dir=None):
    """Execute the configuration on the real sample_chains; returns the abstract observation."""
    from mici.samplers import MarkovChainMonteCarloMethod
    from mici.states import ChainState

    from mbv import sampler_probe as P

    logging.disable(logging.CRITICAL)  # mici logs handled interrupts with full tracebacks
    layout = cfg["stages"]
    bounds = list(np.cumsum([s["n"] for s in layout]))
    P.PLAN["interrupt"] = cfg["intr"] if cfg["intr"]["stage"] else None
    P.PLAN["delays"] = delays or {}
    P.PLAN["event_dir"] = event_dir
    P.PLAN["signal_dir"] = signal_dir
    P.PLAN["initfail"] = cfg.get("initfail") if (cfg.get("initfail") or {}).get("stage") else None
    P._FIRED[0] = False
    P._FIRED_CHAINS.clear()
    P._SEQ[0] = 0
    bitgen, kind = cfg_rng(cfg)
    P.PLAN["draw"] = kind
    transitions = {"stamp": P.StageStamp(bounds), "probe": P.ProbeTransition()}
    sampler = MarkovChainMonteCarloMethod(rng=make_rng(bitgen, seed), transitions=transitions)
    nchain = cfg["nchain"]
    xs = [np.array([c, 0.0, np.nan, 0.0, 0.0]) for c in range(1, nchain + 1)]
    init_states = [ChainState(x=x) if init_kind == "state" else {"x": x} for x in xs]
    n_process = None if cfg.get("nproc_none") else (1 if cfg["nproc"] == 0 else cfg["nproc"])
    kw = {}
    tmp = None
    if storage == "memmap-temp":
        kw["force_memmap"] = True
    elif storage in ("memmap-dir", "memmap-dir-reused"):
        tmp = tempfile.mkdtemp(prefix="mm_", dir=str(tlc.BUILD))
        kw["force_memmap"] = True
        kw["memmap_path"] = tmp
        if storage == "memmap-dir-reused":
            # the directory already holds the files of an earlier, complete call with the same layout (other
            # generator seed, no interrupt): nothing of it may show in what this call returns
            P.PLAN["interrupt"] = None
            saved_initfail, P.PLAN["initfail"] = P.PLAN["initfail"], None
            first = MarkovChainMonteCarloMethod(rng=make_rng(bitgen, seed + 77), transitions=transitions)
            with warnings.catch_warnings():
                warnings.simplefilter("ignore")
                first.sample_chains(0, cfg["nrows"], [ChainState(x=np.array([c, 0.0, np.nan, 0.0, 0.0])) for c in range(1, cfg["nchain"] + 1)],
                                    trace_funcs=[P.decoy_trace, P.probe_trace], adapters={"probe": []}, stager=P.FixedStager(layout),
                                    n_process=1, trace_warm_up=False, display_progress=False, **kw)
            P.PLAN["interrupt"] = cfg["intr"] if cfg["intr"]["stage"] else None
            P.PLAN["initfail"] = saved_initfail
            P._FIRED[0] = False
            P._FIRED_CHAINS.clear()
            transitions["probe"].pfast, transitions["probe"].pslow = P.USER, P.USER
    obs = {"exception": None}
    import contextlib
    import io

    # "memory-mapped outputs are flushed to disk": reading the file back in the same process cannot tell (the page
    # cache serves it), so for in-process runs every np.memmap.flush() is observed together with the content it wrote out
    flushed = {}
    orig_flush = np.memmap.flush

    def recording_flush(self):
        try:
            flushed[os.path.realpath(str(self.filename))] = np.asarray(self).tobytes()
        except Exception:  # noqa: BLE001
            pass
        return orig_flush(self)

    watch_flush = bool(tmp) and n_process == 1 and not second_call
    if watch_flush:
        np.memmap.flush = recording_flush
    try:
        with warnings.catch_warnings(), contextlib.redirect_stdout(io.StringIO()):
            warnings.simplefilter("ignore")
            out = sampler.sample_chains(
                0, cfg["nrows"], init_states, trace_funcs=[P.decoy_trace, P.probe_trace], adapters={"probe": []},
                stager=P.FixedStager(layout), n_process=n_process, trace_warm_up=False,
                display_progress=event_dir is not None, progress_bar_class=P.ProbeBar if event_dir else None, **kw)
            if second_call:
                # a second call on the SAME sampler object (other initial states): the outputs of the
                # first call, decoded below, must not be affected by it
                P.PLAN["interrupt"] = None
                xs2 = [np.array([c + 10.0, 0.0, np.nan, 0.0, 0.0]) for c in range(1, nchain + 1)]
                out2 = sampler.sample_chains(
                    0, cfg["nrows"], [ChainState(x=x) for x in xs2], trace_funcs=[P.decoy_trace, P.probe_trace],
                    adapters={"probe": []}, stager=P.FixedStager(layout), n_process=n_process, trace_warm_up=False,
                    display_progress=False, **kw)
                obs["second_final"] = [[int(s_.x[0]), int(s_.x[1])] for s_ in out2.final_states]
    except BaseException as e:  # noqa: BLE001
        if isinstance(e, SystemExit):
            raise
        obs["exception"] = f"{type(e).__name__}: {e}"
        if tmp:
            shutil.rmtree(tmp, ignore_errors=True)
        return obs
    finally:
        np.memmap.flush = orig_flush
    total = int(bounds[-1]) if bounds else 0
    streams = expected_streams(seed, nchain, total, bitgen, kind)
    obs["rng"] = f"{bitgen}/{kind}"
    tr, sr = [], []
    for c in range(nchain):
        rows_t, rows_s = [], []
        for r in range(cfg["nrows"]):
            if out.traces is None:
                rows_t.append([0, 0])
            else:
                x = out.traces["x"][c][r]
                kk = out.traces["k"][c][r]
                if np.isnan(x[0]):
                    rows_t.append([0, 0] if kk == 0 else [-1, -1])
                else:
                    rows_t.append([int(x[1]) if int(x[0]) == c + 1 and int(kk) == int(x[1]) and len(x) == 5 else -1,
                                   streams[c].get(float(x[2]), -1)])
            stt = out.statistics["probe"]
            k = int(stt["k"][c][r])
            if k == -1:
                ok_fill = np.isnan(stt["u"][c][r]) and np.isnan(stt["pfast"][c][r]) and not stt["flag"][c][r]
                rows_s.append([0, 0, P.dec_param(0.0), P.dec_param(0.0)] if ok_fill else [-1, -1, None, None])
            else:
                rows_s.append([k if stt["flag"][c][r] else -1, streams[c].get(float(stt["u"][c][r]), -1),
                               P.dec_param(stt["pfast"][c][r]), P.dec_param(stt["pslow"][c][r])])
        tr.append(rows_t)
        sr.append(rows_s)
    finals = []
    for stt_ in out.final_states:
        x = stt_.x
        finals.append([int(x[0]), int(x[1]), streams[int(x[0]) - 1].get(float(x[2]), 0 if np.isnan(x[2]) else -1)])
    obs.update({"tr": tr, "sr": sr, "finals": finals,
                "dtypes": {k: str(v[0].dtype) for k, v in out.statistics["probe"].items()},
                "lens": sorted({len(a) for v in out.statistics["probe"].values() for a in v}
                               | ({len(a) for v in out.traces.values() for a in v} if out.traces else set())),
                "param": {"fast": P.dec_param(transitions["probe"].pfast), "slow": P.dec_param(transitions["probe"].pslow)}})
    if tmp:
        # C15/C13: what is on disk is what was returned
        disk_ok = True
        for c in range(nchain):
            f = Path(tmp) / f"trace_{c}_x.npy"
            if out.traces is not None and f.exists():
                disk_ok &= bool(np.array_equal(np.load(f), np.asarray(out.traces["x"][c]), equal_nan=True))
            f = Path(tmp) / f"stats_{c}_probe_k.npy"
            if f.exists():
                disk_ok &= bool(np.array_equal(np.load(f), np.asarray(out.statistics["probe"]["k"][c])))
            else:
                disk_ok = False
            if watch_flush:
                for f, arr in ((Path(tmp) / f"trace_{c}_x.npy", out.traces["x"][c] if out.traces is not None else None),
                               (Path(tmp) / f"stats_{c}_probe_k.npy", out.statistics["probe"]["k"][c]),
                               (Path(tmp) / f"stats_{c}_probe_u.npy", out.statistics["probe"]["u"][c])):
                    # (only arrays holding at least one recorded iteration: the initial fill of the arrays of a chain that
                    #  was never started is written by the library without an explicit flush -- no recorded row is at stake)
                    a_ = np.asarray(arr) if arr is not None else np.zeros(0)
                    recorded = bool(a_.size and (np.any(a_ != -1) if a_.dtype.kind == "i" else not np.all(np.isnan(a_))))
                    if arr is not None and isinstance(arr, np.memmap) and f.exists() and recorded:
                        if flushed.get(os.path.realpath(str(f))) != np.asarray(arr).tobytes():
                            obs["flush_missing"] = f.name
        obs["disk_ok"] = disk_ok
        del out
        shutil.rmtree(tmp, ignore_errors=True)
    return obs


def spec_expectation(term):
    """TLC terminal record -> comparable structure."""
    def prov(p):
        return {"t": p["t"], "s": p["s"], "c": p["c"], "n": p["n"]}

    tr = [[[row[0], row[1]] for row in chain] for chain in term["tr"]]
    sr = [[[row[0], row[1], prov(row[2]), prov(row[3])] for row in chain] for chain in term["sr"]]
    return {"tr": tr, "sr": sr, "finals": [list(f) for f in term["finals"]],
            "param": {k: prov(v) for k, v in term["param"].items()}}


# --------------------------------------------------------------------------------------
# comparison of a real observation with the spec's terminal state(s)
# --------------------------------------------------------------------------------------
def _mode(cfg):
    if cfg.get("nproc_none"):
        return "n_process=None"
    return "sequential" if cfg["nproc"] == 0 else f"parallel({cfg['nproc']})"


def _stage_of_row(cfg, r):
    """(stage index, global iteration id) of 1-based recorded row r"""
    done_all, row = 0, r
    for s, stg in enumerate(cfg["stages"], start=1):
        if stg["traced"] or stg["stats"]:
            if row <= stg["n"]:
                return s, done_all + row
            row -= stg["n"]
        done_all += stg["n"]
    return 0, 0


def last_effective(cfg, a):
    ss = [s for s, stg in enumerate(cfg["stages"], start=1) if a in stg["adapters"] and stg["n"] > 0]
    return {"t": "fin", "s": ss[-1], "c": 0, "n": 0} if ss else {"t": "user", "s": 0, "c": 0, "n": 0}


def judge(cfg, obs, terms, storage="mem", tag=""):
    """Property-level verdicts for one real run.  Returns (violations, drifts):
    violations are (owner, signature, what) triples; drifts are strings."""
    viol, drift = [], []
    mode = _mode(cfg)
    intr = cfg["intr"]["stage"] > 0
    lay = cfg["layout"]
    if obs["exception"] is not None:
        owner = "C15" if intr else "C13"
        exc = obs["exception"].split(":")[0]
        if intr:
            sig = f"C15:{mode.split('(')[0]}:exception-escapes:{exc}:stage-adapters={'+'.join(cfg['stages'][cfg['intr']['stage'] - 1]['adapters']) or 'none'}"
        elif (cfg.get("initfail") or {}).get("stage"):
            sig = f"C13:{mode.split('(')[0]}:exception-escapes:{exc}:after-adapter-init-failure"
        else:
            sig = f"C13:{mode.split('(')[0]}:exception-escapes:{exc}"
        viol.append((owner, sig, f"sample_chains raised {obs['exception']} (layout {lay}, {cfg['nchain']} chains, {mode}"
                     + (f", interrupt {cfg['intr']}" if intr else "") + ")"))
        return viol, drift
    if (cfg.get("initfail") or {}).get("stage"):
        if obs["exception"] is None and terms:
            exps = [spec_expectation(t) for t in terms.values()]
            got = {"tr": [[row[:2] for row in ch] for ch in obs["tr"]], "sr": obs["sr"], "finals": obs["finals"]}
            if not any(all(got[k] == e[k] for k in ("tr", "sr", "finals")) for e in exps):
                viol.append(("C13", f"C13:{mode.split('(')[0]}:adapter-init-failure:outputs",
                             f"after an adapter initialisation failure of chain {cfg['initfail']['chain']} in stage {cfg['initfail']['stage']} "
                             f"the outputs of the remaining chains are not those of Sampler.tla ({lay}, {cfg['nchain']} chains, {mode})"))
        return viol, drift
    nchain, nr = cfg["nchain"], cfg["nrows"]
    total = sum(s["n"] for s in cfg["stages"])
    if obs["lens"] and obs["lens"] != [nr]:
        viol.append(("C13", f"C13:{mode.split('(')[0]}:array-length", f"array lengths {obs['lens']} != recorded iterations {nr} ({lay})"))
    want_dt = {"k": "int64", "u": "float64", "pfast": "float64", "pslow": "float64", "flag": "bool"}
    if obs["dtypes"] != want_dt:
        viol.append(("C13", f"C13:{mode.split('(')[0]}:stat-dtypes", f"statistic dtypes {obs['dtypes']} != declared {want_dt}"))
    if obs.get("flush_missing"):
        viol.append(("C15" if intr else "C13", f"{'C15' if intr else 'C13'}:{mode.split('(')[0]}:memmap-flush-missing",
                     f"the returned memory-mapped array {obs['flush_missing']} was never flushed after its last write (no np.memmap.flush() "
                     f"call wrote out its final content; {lay}, {mode})"))
    if obs.get("disk_ok") is False:
        viol.append(("C15" if intr else "C13", f"{'C15' if intr else 'C13'}:{mode.split('(')[0]}:memmap-not-flushed",
                     f".npy files on disk differ from the returned arrays ({lay}, {mode})"))
    for c in range(nchain):
        for r in range(1, nr + 1):
            s, k = _stage_of_row(cfg, r)
            stg = cfg["stages"][s - 1]
            t, st_ = obs["tr"][c][r - 1], obs["sr"][c][r - 1]
            where = f"layout {lay}, {nchain} chains, {mode}, storage {storage}{tag}, chain {c + 1} row {r} (stage {s}, iteration {k})"
            if not intr:
                # ---- C13: rows exact ----
                if stg["traced"] and t[0] != k:
                    viol.append(("C13", f"C13:{mode.split('(')[0]}:trace-row", f"trace row holds state after iteration {t[0]} (0 = fill value), expected {k}: {where}"))
                if not stg["traced"] and t[0] != 0:
                    viol.append(("C13", f"C13:{mode.split('(')[0]}:trace-row-untraced-stage", f"trace row of an untraced stage was written: {where}"))
                if stg["stats"] and st_[0] != k:
                    viol.append(("C13", f"C13:{mode.split('(')[0]}:stat-row", f"statistics row holds iteration {st_[0]}, expected {k}: {where}"))
                # ---- C14: stream position ----
                if stg["traced"] and t[0] == k and t[1] != k:
                    viol.append(("C14", f"C14:{mode.split('(')[0]}:stream-position:{'replayed' if 0 < t[1] < k else 'foreign'}",
                                 f"iteration {k} consumed draw #{t[1]} of the chain's stream (expected #{k}: stream replayed or foreign): {where}"))
                if stg["stats"] and st_[0] == k and st_[1] != k:
                    viol.append(("C14", f"C14:{mode.split('(')[0]}:stream-position:{'replayed' if 0 < st_[1] < k else 'foreign'}",
                                 f"iteration {k} consumed draw #{st_[1]} of the chain's stream (expected #{k}): {where}"))
                # ---- C16: main stage frozen at the last effective finalised value ----
                if s == len(cfg["stages"]) and not stg["adapters"] and stg["stats"] and st_[0] == k:
                    for a, got in (("fast", st_[2]), ("slow", st_[3])):
                        want = last_effective(cfg, a)
                        if got != want:
                            kind = "zero-iteration-stage-finalised" if got["t"] == "fin" and cfg["stages"][got["s"] - 1]["n"] == 0 else (
                                "not-finalised" if got["t"] in ("upd", "init") else "wrong-stage")
                            viol.append(("C16", f"C16:{mode.split('(')[0]}:main-stage-parameter:{kind}",
                                         f"main stage used parameter {got} for adapter '{a}', expected {want} (finalised by the last stage with >= 1 update): {where}"))
            else:
                # ---- C15: prefix ----
                ist = cfg["intr"]["stage"]
                if t[0] not in (0, k) or st_[0] not in (0, k):
                    viol.append(("C15", f"C15:{mode.split('(')[0]}:row-not-prefix", f"row holds {t[0]}/{st_[0]}, must be fill or iteration {k}: {where}, interrupt {cfg['intr']}"))
                if s > ist and (t[0] != 0 or st_[0] != 0):
                    viol.append(("C15", f"C15:{mode.split('(')[0]}:later-stage-started", f"row of a stage after the interrupted one was written: {where}, interrupt {cfg['intr']}"))
                if s < ist and ((stg["traced"] and t[0] != k) or (stg["stats"] and st_[0] != k)):
                    viol.append(("C15", f"C15:{mode.split('(')[0]}:completed-stage-lost", f"row of a completed earlier stage is not as in the uninterrupted run: {where}, interrupt {cfg['intr']}"))
    if not intr:
        fin_want = [[c + 1, total, total] for c in range(nchain)]
        if [f[:2] for f in obs["finals"]] != [f[:2] for f in fin_want]:
            viol.append(("C13", f"C13:{mode.split('(')[0]}:final-state", f"final states {obs['finals']} != state after the last iteration {fin_want} ({lay}, {mode})"))
        elif obs["finals"] != fin_want:
            viol.append(("C14", f"C14:{mode.split('(')[0]}:final-state-stream", f"final states {obs['finals']} carry draws that are not the chain's own stream position ({lay}, {mode})"))
    else:
        if terms:
            want_ids = {tuple(x[0] for x in t["finals"]) for t in terms.values()}
            got_ids = tuple(f[0] for f in obs["finals"])
            if got_ids not in want_ids:
                viol.append(("C15", f"C15:{mode.split('(')[0]}:final-states-of-started-chains",
                             f"final states returned for chains {list(got_ids)}, but the chains that were run are {sorted(want_ids)} "
                             f"({lay}, {mode}, interrupt {cfg['intr']})"))
        for f in obs["finals"]:
            if not (1 <= f[0] <= nchain and 0 <= f[1] <= total and (f[2] >= 1 or f[1] == 0)):
                viol.append(("C15", f"C15:{mode.split('(')[0]}:final-state-invalid", f"returned final state {f} is not a valid chain state ({lay}, {mode}, interrupt {cfg['intr']})"))
    # ---- conformance with the spec's terminal states (drift level) ----
    if terms:
        exps = [spec_expectation(t) for t in terms.values()]
        got = {"tr": [[row[:2] for row in ch] for ch in obs["tr"]], "sr": obs["sr"], "finals": obs["finals"]}
        if not any(all(got[k] == e[k] for k in ("tr", "sr", "finals")) for e in exps):
            e = exps[0]
            diffs = [k for k in ("tr", "sr", "finals") if got[k] != e[k]]
            drift.append(f"observation differs from every terminal state of Sampler.tla in {diffs} ({lay}, {nchain} chains, {mode}, intr {cfg['intr']})")
    return viol, drift


# --------------------------------------------------------------------------------------
# real HMC family: the library's own samplers, adapters and stagers, against a reference loop
# --------------------------------------------------------------------------------------
class _IntrTrace:
    """trace function raising KeyboardInterrupt at its k-th call (module level: picklable)."""

    def __init__(self, k):
        self.k, self.n = k, 0

    def __call__(self, state):
        self.n += 1
        if self.k and self.n == self.k:
            raise KeyboardInterrupt
        return {"pos": state.pos}


def _nld(q):
    return 0.5 * float(q @ q) + 0.05 * float(np.sum(q**4))


def _gnld(q):
    return q + 0.2 * q**3


def hmc_run(*, sampler="static", adapters=("dual",), stager="default", n_warm=12, n_main=4, nchain=2,
            n_process=1, intr_call=0, seed=7, trace_warm_up=False, force_memmap=False, explicit_mom=False,
            bitgen="PCG64", record_draws=False):
    """Run a real HMC sampler; returns dict(exception, step_sizes per main row, n_final, ...)."""
    import mici

    logging.disable(logging.CRITICAL)
    system = mici.systems.EuclideanMetricSystem(_nld, grad_neg_log_dens=_gnld)
    integ = mici.integrators.LeapfrogIntegrator(system, step_size=None if "dual" in adapters else 0.3)
    rng = make_rng(bitgen, seed)
    draws, rng_states = [], []
    if record_draws:
        # instance-level wrapper (no source hook): every momentum handed out by the system, in the parent
        # process (meaningful for n_process=1 only)
        inner = system.sample_momentum

        def recording_sample_momentum(state, rng_):
            try:
                rng_states.append(repr(rng_.bit_generator.state))
            except Exception:  # noqa: BLE001
                pass
            mom = inner(state, rng_)
            draws.append(np.array(mom, copy=True).tolist())
            return mom

        system.sample_momentum = recording_sample_momentum
    if sampler == "static":
        smp = mici.samplers.StaticMetropolisHMC(system, integ, rng, n_step=2)
    elif sampler == "random":
        smp = mici.samplers.RandomMetropolisHMC(system, integ, rng, n_step_range=(1, 3))
    else:
        smp = mici.samplers.DynamicMultinomialHMC(system, integ, rng, max_tree_depth=3)
    ads = []
    for a in adapters:
        if a == "dual":
            ads.append(mici.adapters.DualAveragingStepSizeAdapter())
        elif a == "var":
            ads.append(mici.adapters.OnlineVarianceMetricAdapter())
        elif a == "cov":
            ads.append(mici.adapters.OnlineCovarianceMetricAdapter())
    stg = None
    if stager == "windowed":
        stg = mici.stagers.WindowedWarmUpStager()
    elif stager == "windowed-small":
        stg = mici.stagers.WindowedWarmUpStager(n_init_slow_window_iter=2, n_init_fast_stage_iter=2, n_final_fast_stage_iter=2)
    init = [np.array([0.3 * (c + 1), -0.2, 0.1 * c]) for c in range(nchain)]
    if explicit_mom:  # initial momenta supplied by the caller: the base generator is not consumed
        from mici.states import ChainState
        init = [ChainState(pos=x, mom=np.array([0.5, -0.1 * (c + 1), 0.2]), dir=1) for c, x in enumerate(init)]
    tf = _IntrTrace(intr_call)
    res = {"exception": None, "draws": draws, "rng_states": rng_states}
    try:
        with warnings.catch_warnings():
            warnings.simplefilter("ignore")
            out = smp.sample_chains(n_warm, n_main, init, adapters=ads, stager=stg, n_process=n_process,
                                    trace_funcs=[tf], trace_warm_up=trace_warm_up, display_progress=False,
                                    force_memmap=force_memmap)
    except BaseException as e:  # noqa: BLE001
        if isinstance(e, SystemExit):
            raise
        res["exception"] = f"{type(e).__name__}: {e}"
        return res
    res["n_final"] = len(out.final_states)
    res["finite_final"] = all(np.all(np.isfinite(s.pos)) and np.all(np.isfinite(s.mom)) for s in out.final_states)
    res["step_size_rows"] = [np.asarray(a).tolist() for a in out.statistics["step_size"]]
    res["pos_rows"] = [np.asarray(a).tolist() for a in out.traces["pos"]]
    res["final_step_size"] = integ.step_size
    try:
        res["metric"] = np.asarray(system.metric.array).tolist()
    except RuntimeError:  # implicit-size identity
        res["metric"] = np.eye(3).tolist()
    return res


# --------------------------------------------------------------------------------------
# code -> spec: trace validation of recorded real runs by TLC (Trace_Sampler.tla)
# --------------------------------------------------------------------------------------
TRACE_CFG = """SPECIFICATION TraceSpec
INVARIANT TypeOK
INVARIANT NoReplay
INVARIANT PrefixOnInterrupt
INVARIANT RowsExact
INVARIANT MainFrozen
INVARIANT Progress_
POSTCONDITION AllAccepted
CHECK_DEADLOCK FALSE
"""


def record_real(cfg, name, **kw):
    d = tlc.fresh_dir(name)
    obs = run_real(cfg, event_dir=str(d), **kw)
    evs = []
    f = d / "events.ndjson"
    if f.exists():
        evs = [json.loads(x) for x in f.read_text().splitlines() if x.strip()]
    shutil.rmtree(d, ignore_errors=True)
    # per-process order must be respected by the file order (sanity of the linearisation)
    last = {}
    for e in evs:
        if e["seq"] <= last.get(e["pid"], 0):
            raise MachineryError("event file order contradicts a per-process sequence number")
        last[e["pid"]] = e["seq"]
    return obs, evs


BARS_TRACE_CFG = """SPECIFICATION TraceSpec
INVARIANT TypeOK
INVARIANT NoReplay
INVARIANT NeverAhead
INVARIANT ClosedOutsideStages
INVARIANT StageBarNeverAhead
INVARIANT Progress_
POSTCONDITION AllAccepted
CHECK_DEADLOCK FALSE
"""

BARS_CFG = """SPECIFICATION BSpec
INVARIANT TypeOK
INVARIANT NeverAhead
INVARIANT SeqExact
INVARIANT FullWhenDone
INVARIANT ClosedOutsideStages
INVARIANT StageBarCounts
INVARIANT StageBarNeverAhead
PROPERTY SamplerSafety
CHECK_DEADLOCK TRUE
"""


def run_bars_spec(cfgs, name, timeout=1500):
    """Model check SamplerBars.tla (progress-display refinement of Sampler.tla) on a configuration family."""
    d = tlc.fresh_dir(name)
    tlc.stage_specs(d, ["Sampler.tla", "SamplerBars.tla"])
    (d / "SamplerConsts.tla").write_text(consts_module(cfgs))
    res = tlc.run_tlc(d, "SamplerBars", BARS_CFG, workers=8, timeout=timeout, cpus=8, heap="6g", coverage=True)
    if not res.ok:
        raise MachineryError(f"SamplerBars.tla violates its own properties: {res.violated}\n{res.stdout[-1500:]}")
    return res


def validate_real_traces(cfgs, records, name, timeout=900, bars=False):
    """records: list of (cfg index, obs, events).  Returns (rejected list, TlcResult).
    bars: validate against SamplerBars.tla, progress-bar events included."""
    d = tlc.fresh_dir(name)
    tlc.stage_specs(d, ["Sampler.tla", "Trace_Sampler.tla"] if not bars else ["Sampler.tla", "SamplerBars.tla", "Trace_SamplerBars.tla"])
    used = sorted({g for g, _, _ in records})
    local = {g: i + 1 for i, g in enumerate(used)}
    (d / "SamplerConsts.tla").write_text(consts_module([cfgs[g] for g in used]))
    items = []
    for g, obs, evs in records:
        ev_t = []
        for e in evs:
            if e["ev"] == "Trans":
                ev_t.append({"ev": "Trans", "c": e["c"], "k": e["k"], "s": e["s"], "i": e["i"]})
            elif e["ev"] == "Interrupt":
                ev_t.append({"ev": "Interrupt", "site": e["site"], "c": e["c"], "s": e["s"], "k": e["k"]})
            elif e["ev"] == "AdFinal":
                ev_t.append({"ev": "AdFinal", "a": e["a"], "s": e["s"]})
            elif bars and e["ev"] in ("BarSeq", "BarEnter", "BarUpd", "BarExit") and e.get("c", 0) > 0:
                ev_t.append({"ev": e["ev"], "c": e["c"], "i": e.get("i", 0), "n": e.get("n", 0), "active": bool(e.get("active", False)),
                             "a": "", "k": 0, "s": 0, "site": ""})
        nchain, nr = cfgs[g]["nchain"], cfgs[g]["nrows"]
        o = {"tr": [[[row[0], row[1]] for row in obs["tr"][c]] for c in range(nchain)],
             "sr": [[[row[0], row[1]] for row in obs["sr"][c]] for c in range(nchain)],
             "finals": obs["finals"]}
        items.append("[cfg |-> %d, ev |-> %s, obs |-> [tr |-> %s, sr |-> %s, finals |-> %s]]" % (
            local[g], tlc.to_tla(ev_t) if ev_t else "<<>>", tlc.to_tla(o["tr"]), tlc.to_tla(o["sr"]),
            tlc.to_tla(o["finals"])))
    (d / "TraceDataSampler.tla").write_text(
        "---- MODULE TraceDataSampler ----\nEXTENDS Integers\nTraces == <<\n " + ",\n ".join(items) + "\n>>\n====\n")
    res = tlc.run_tlc(d, "Trace_SamplerBars" if bars else "Trace_Sampler", BARS_TRACE_CFG if bars else TRACE_CFG, workers=1,
                      timeout=timeout, dump_trace=False, cpus=4, heap="4g", dfs_queue=True)
    rejected = []
    for r in res.printed:
        if isinstance(r, dict) and "rejected" in r:
            rejected += [tuple(x) for x in r["rejected"]]
    if not res.ok and res.error_kind != "postcondition":
        rejected.append((-1, f"invariant {res.violated} violated while following a real trace"))
    return rejected, res


def run_real_with_sigint(cfg, name, timeout=60, send_signal=True, one_pool=False):
    """run_real_with_sigint_once, repeated (at most three times) while the HARNESS failed to deliver the signal at the
    agreed point (a chain waited at the barrier in vain, or the run ended before the signal was sent): such a run says
    nothing about the sampler.  Still inconclusive after three attempts: {"inconclusive": ...} (reported as drift)."""
    obs = None
    for attempt in range(3):
        obs = run_real_with_sigint_once(cfg, f"{name}" if attempt == 0 else f"{name}_retry{attempt}", timeout, send_signal, one_pool)
        if not obs.get("inconclusive"):
            return obs
    return obs


def run_real_with_sigint_once(cfg, name, timeout=60, send_signal=True, one_pool=False):
    """Run the configuration in a child process (own session) and deliver a real SIGINT to the whole
    process group once every chain that can be running waits at the interrupt point."""
    import signal
    import subprocess
    import sys
    import time

    d = tlc.fresh_dir(name)
    (d / "cfg.json").write_text(json.dumps(cfg))
    env = dict(os.environ)
    if one_pool:
        env["MBV_ONE_POOL_PROCESS"] = "1"
    p = subprocess.Popen([sys.executable, "-m", "mbv.sampler_sigint", str(d / "cfg.json"), str(d / "out.json"),
                          str(d) if send_signal else "-"],
                         env=env, start_new_session=True, stdout=subprocess.DEVNULL, stderr=subprocess.PIPE)
    want = min(cfg["nchain"], max(cfg["nproc"], 1))
    t0 = time.time()
    sent = False
    while time.time() - t0 < timeout:
        if p.poll() is not None:
            break
        if send_signal and not sent and len(list(d.glob("at_barrier_*"))) >= want:
            time.sleep(0.05)
            os.killpg(p.pid, signal.SIGINT)
            sent = True
        time.sleep(0.01)
    if p.poll() is None:
        os.killpg(p.pid, signal.SIGKILL)
        p.wait()
        shutil.rmtree(d, ignore_errors=True)
        return {"exception": "Timeout: sample_chains did not return after the interrupt (hung)"}
    err = p.stderr.read().decode()[-400:]
    if send_signal and (list(d.glob("barrier_timeout_*")) or not sent):
        why = "a chain waited at the barrier for 30 s without receiving the signal" if list(d.glob("barrier_timeout_*")) \
            else "the run ended before the signal was sent"
        shutil.rmtree(d, ignore_errors=True)
        return {"exception": None, "inconclusive": f"real SIGINT could not be delivered at the agreed point ({why})"}
    if not (d / "out.json").exists():
        shutil.rmtree(d, ignore_errors=True)
        return {"exception": f"ChildDied: rc={p.returncode} {err}"}
    obs = json.loads((d / "out.json").read_text())
    shutil.rmtree(d, ignore_errors=True)
    return obs
