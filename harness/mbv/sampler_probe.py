"""Probe objects handed to the real `sample_chains`: a draw-recording transition, logging
adapters, a fixed stager, a trace function and a progress-bar class.  Everything is
module-level so that the standard-library pickle can ship it to worker processes.

Events are appended (one JSON line each, with pid and a per-process sequence number) to one
file opened O_APPEND by every process: the file order is a linearisation that respects each
process's own order and the causality induced by the queues (no wall-clock merging).
"""

from __future__ import annotations

import json
import os
import time

import numpy as np

from mici.adapters import Adapter
from mici.stagers import ChainStage, Stager
from mici.transitions import Transition

# ---- run plan (module globals are inherited by forked workers) -----------------------
PLAN = {
    "interrupt": None,   # {"stage": s, "chain": c, "k": i, "site": "trans"|"trace"}
    "delays": {},        # chain -> seconds slept at the start of each iteration (schedule perturbation)
    "event_dir": None,
    "initfail": None,
    "stage": [0],        # current stage index as seen by the stager-provided adapters (parent side)
    "draw": "double",    # what the probe transition draws per iteration: "double" | "uint32" (leaves a buffered half word)
}
_SEQ = [0]
_FIRED = [False]
_FIRED_CHAINS = set()


def log_event(ev, **fields):
    d = PLAN["event_dir"]
    if d is None:
        return
    _SEQ[0] += 1
    rec = {"pid": os.getpid(), "seq": _SEQ[0], "ev": ev, **fields}
    # one file for all processes, O_APPEND: each write lands atomically at the end of the file,
    # so the file order is a linearisation consistent with per-process order and causality
    fd = os.open(os.path.join(d, "events.ndjson"), os.O_WRONLY | os.O_APPEND | os.O_CREAT, 0o644)
    try:
        os.write(fd, (json.dumps(rec) + "\n").encode())
    finally:
        os.close(fd)


def _maybe_interrupt(site, chain, stage, k):
    it = PLAN["interrupt"]
    if not it or it["site"] != site or it["stage"] != stage or it["k"] != k:
        return
    if it["chain"] == chain:
        if _FIRED[0]:
            return
        _FIRED[0] = True
        log_event("Interrupt", site=site, c=chain, s=stage, k=k)
        raise KeyboardInterrupt
    if it["chain"] == 0:
        # "Ctrl-C": EVERY chain reaching this point is interrupted (Sampler.tla, intr.chain = 0).  The flag is kept per
        # chain, not per process: multiprocessing.Pool may hand both `_sample_chains_worker` tasks to one pool process
        # (the other still starting up on a loaded machine), which then reaches this point once per chain it runs.
        # With a signal directory the interrupt is a REAL SIGINT sent to the whole process group by the harness once
        # every running chain waits here; otherwise (sequential runs, "child" variant) it is raised in place.  A process
        # that has already received the real signal raises the interrupt in place for any further chain it takes.
        if chain in _FIRED_CHAINS:
            return
        _FIRED_CHAINS.add(chain)
        already = _FIRED[0]
        _FIRED[0] = True
        log_event("Interrupt", site=site, c=chain, s=stage, k=k)
        sd = PLAN.get("signal_dir")
        if sd is None or already:
            raise KeyboardInterrupt
        open(os.path.join(sd, f"at_barrier_{chain}"), "w").close()
        for _ in range(3000):
            time.sleep(0.01)      # KeyboardInterrupt is delivered here by the real signal
        open(os.path.join(sd, f"barrier_timeout_{chain}"), "w").close()   # tells the harness: inconclusive, not a verdict
        raise RuntimeError("probe: the expected SIGINT never arrived")


USER, INIT, UPD, FIN = 0.0, 1.0e6, 2.0e6, 3.0e6


def enc_init(c):
    return INIT + c


def enc_upd(c, n):
    return UPD + 1000 * c + n


def enc_fin(s):
    return FIN + s


def dec_param(v):
    v = float(v)
    if v == USER:
        return {"t": "user", "s": 0, "c": 0, "n": 0}
    if INIT <= v < UPD:
        return {"t": "init", "s": 0, "c": int(v - INIT), "n": 0}
    if UPD <= v < FIN:
        w = int(v - UPD)
        return {"t": "upd", "s": 0, "c": w // 1000, "n": w % 1000}
    return {"t": "fin", "s": int(v - FIN), "c": 0, "n": 0}


def draw(rng, kind):
    """One draw per iteration.  A 32-bit draw leaves the other half of a 64-bit output buffered inside the
    bit generator (PCG64, SFC64, MT19937: has_uint32 / uinteger; Philox additionally keeps a 4-word buffer), so
    the stream position is only carried over correctly if the WHOLE generator state is."""
    if kind == "uint32":
        return float(rng.integers(0, 2**32, dtype=np.uint32))
    return float(rng.random())


class ProbeTransition(Transition):
    """state.x = [chain, iterations so far, last raw draw, stage-local iteration]"""

    def __init__(self):
        self.pfast = USER
        self.pslow = USER

    @property
    def state_variables(self):
        return {"x"}

    @property
    def statistic_types(self):
        return {"k": (np.int64, -1), "u": (np.float64, np.nan), "pfast": (np.float64, np.nan),
                "pslow": (np.float64, np.nan), "flag": (bool, False)}

    def sample(self, state, rng):
        c, k = int(state.x[0]), int(state.x[1])
        s = int(state.x[3])
        i = int(state.x[4]) + 1
        d = PLAN["delays"].get(c)
        if d:
            time.sleep(d)
        _maybe_interrupt("trans", c, s, i)
        u = draw(rng, PLAN.get("draw", "double"))
        # the state variable is updated IN PLACE and re-assigned (the idiom of the library's own flows and
        # of the correlated momentum refresh): whoever keeps a reference to the array sees it change
        x = state.x
        x[1], x[2], x[4] = k + 1, u, i
        state.x = x
        log_event("Trans", c=c, k=k + 1, s=s, i=i)
        return state, {"k": k + 1, "u": u, "pfast": self.pfast, "pslow": self.pslow, "flag": True}


def decoy_trace(state):
    """An earlier trace function returning the same keys: the documented rule is that the LAST trace
    function returning a key wins."""
    # (the interrupt of site "trace" is raised here, in the first trace function called, so that no
    #  part of the interrupted iteration's row has been written)
    c, k, u, s, i = state.x
    _maybe_interrupt("trace", int(c), int(s), int(i))
    return {"k": -7, "x": np.full(5, -7.0)}


def probe_trace(state):
    c, k, u, s, i = state.x
    # the state's own array object is returned (as a trace function returning state.pos / state.mom does)
    return {"x": state.x, "k": int(k)}


class ProbeAdapter(Adapter):
    def __init__(self, name, stage, fast):
        self.name, self.stage, self._fast = name, stage, fast

    @property
    def is_fast(self):
        return self._fast

    def _set(self, transition, v):
        if self.name == "fast":
            transition.pfast = v
        else:
            transition.pslow = v

    def initialize(self, chain_state, transition):
        c = int(chain_state.x[0])
        f = PLAN.get("initfail")
        if f and f["stage"] == self.stage and f["chain"] == c:
            from mici.errors import AdaptationError
            log_event("AdInitFail", a=self.name, s=self.stage, c=c)
            raise AdaptationError("probe: scripted initialisation failure")
        self._set(transition, enc_init(c))
        log_event("AdInit", a=self.name, s=self.stage, c=c)
        return {"n": 0, "c": c}

    def update(self, adapt_state, chain_state, trans_stats, transition):
        adapt_state["n"] += 1
        self._set(transition, enc_upd(adapt_state["c"], adapt_state["n"]))

    def finalize(self, adapt_states, chain_states, transition, rngs):
        if isinstance(adapt_states, dict):
            adapt_states = [adapt_states]
        self._set(transition, enc_fin(self.stage))
        log_event("AdFinal", a=self.name, s=self.stage, n=[a["n"] for a in adapt_states])


class StageStamp(Transition):
    """First transition of every iteration: stamps the stage index / stage-local iteration into
    the state (the sampler gives transitions no stage information).  The stage of an iteration
    is derived from the chain's global iteration count and the fixed stage layout."""

    def __init__(self, bounds):
        self.bounds = list(bounds)  # cumulative iteration counts at the end of each stage

    @property
    def state_variables(self):
        return {"x"}

    def sample(self, state, rng):
        k = int(state.x[1])
        s, prev = 1, 0
        for j, b in enumerate(self.bounds):
            if k < b:
                s, prev = j + 1, (self.bounds[j - 1] if j else 0)
                break
        x = state.x
        x[3], x[4] = s, k - prev
        state.x = x
        return state, None


class FixedStager(Stager):
    """Returns exactly the stage layout it was given (list of dicts n/adapters/traced/stats)."""

    def __init__(self, layout):
        self.layout = layout

    def stages(self, n_warm_up_iter, n_main_iter, adapters, trace_funcs, *, trace_warm_up=False):
        out = {}
        for s, st in enumerate(self.layout, start=1):
            ads = [ProbeAdapter(a, s, a == "fast") for a in sorted(st["adapters"])]
            # an (empty) adapter list for the first transition precedes the probe's adapters: legal,
            # and what the windowed stager produces when a transition has only slow adapters
            out[f"stage {s}"] = ChainStage(
                n_iter=st["n"], adapters={"stamp": [], "probe": ads} if ads else None,
                trace_funcs=tuple(trace_funcs) if st["traced"] else None, record_stats=st["stats"])
        return out


class ProbeBar:
    """progress_bar_class: records every call sample_chains makes on the per-chain progress bars
    (sequence assignment, __enter__, update, __exit__) -- always in the parent process."""

    def __init__(self, sequence, description=None, position=(0, 1)):
        self._sequence, self.description = sequence, description
        self._n_iter = len(sequence)
        self._active = False
        try:
            self.chain = int(str(description).split()[1].split("/")[0])
        except (IndexError, ValueError):
            self.chain = 0

    @property
    def sequence(self):
        return self._sequence

    @sequence.setter
    def sequence(self, value):
        log_event("BarSeq", c=self.chain, n=len(value), active=bool(self._active))
        self._sequence, self._n_iter = value, len(value)

    @property
    def n_iter(self):
        return self._n_iter

    def __len__(self):
        return self._n_iter

    def __iter__(self):
        for i, val in enumerate(self._sequence):
            d = {}
            yield val, d
            self.update(i + 1, d)

    def update(self, iter_count, iter_dict=None, *, refresh=True):
        log_event("BarUpd", c=self.chain, i=int(iter_count), active=bool(self._active))

    def __enter__(self):
        self._active = True
        log_event("BarEnter", c=self.chain)
        return self

    def __exit__(self, *a):
        self._active = False
        log_event("BarExit", c=self.chain)
        return False



class BareTransition(Transition):
    """A transition without statistics (statistic_types = None is documented as legal): x += 1."""

    state_variables = {"x"}
    statistic_types = None

    def sample(self, state, rng):
        state.x = state.x + 1.0
        return state, None


def bare_trace(state):
    return {"x": np.array(state.x)}
