"""Child process for the real-SIGINT scenario of C15: runs one configuration of the probe sampler in
its own session; the harness sends SIGINT to the whole process group once every running chain waits at
the barrier.  usage: python -m mbv.sampler_sigint <cfg.json> <out.json> <signal_dir>"""

import json
import sys


def main():
    from mbv import sampler_engine as E

    cfg = json.load(open(sys.argv[1]))
    obs = E.run_real(cfg, signal_dir=None if sys.argv[3] == "-" else sys.argv[3])
    json.dump(obs, open(sys.argv[2], "w"))


if __name__ == "__main__":
    main()
