"""Child process for the real-SIGINT scenario of C15: runs one configuration of the probe sampler in
its own session; the harness sends SIGINT to the whole process group once every running chain waits at
the barrier.  usage: python -m mbv.sampler_sigint <cfg.json> <out.json> <signal_dir>"""

import json
import os
import sys


def main():
    from mbv import sampler_engine as E

    # a check started as a background job of a non-interactive shell (`bin/check C15 quick &`) inherits SIGINT = SIG_IGN,
    # and Python then leaves it ignored in this process and every pool worker forked from it: the real signal would
    # never interrupt anything (all process-group configurations "inconclusive" after 3 x 30 s).  The scenario is a
    # user's terminal session, where the default handler is installed.
    import signal

    signal.signal(signal.SIGINT, signal.default_int_handler)
    cfg = json.load(open(sys.argv[1]))
    if os.environ.get("MBV_ONE_POOL_PROCESS"):
        # schedule control: multiprocessing.Pool may give both `_sample_chains_worker` tasks to ONE pool process (the
        # other still starting up); a pool of one process makes that legitimate schedule happen every time
        import mici.samplers as S

        orig = S._pool_context_manager
        S._pool_context_manager = lambda n_process: orig(1)
    obs = E.run_real(cfg, signal_dir=None if sys.argv[3] == "-" else sys.argv[3])
    json.dump(obs, open(sys.argv[2], "w"))


if __name__ == "__main__":
    main()
