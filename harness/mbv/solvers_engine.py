"""Engine for specs/Solvers.tla (solver contract of C04, solver level of C12).

TLC enumerates every environment script (residual tokens) for each solver and checks the
contract invariants; every terminal behaviour is replayed into the REAL solver function running
on a real 1-D DenseConstrainedEuclideanMetricSystem whose user constraint function is scripted.
Decisive checks on the implementation: a return implies the last residual is below tolerance, the
position displacement and the momentum correction have Lagrange-multiplier form with the same
multiplier, only ConvergenceError escapes.
"""

from __future__ import annotations

import math
from concurrent.futures import ThreadPoolExecutor

import numpy as np

from mbv import tlc
from mbv.tlc import MachineryError

TOKENS = {
    "tiny": ("val", 1, -40), "mid": ("val", 1, -28), "small": ("val", -1, -10), "one": ("val", 1, 0),
    "huge": ("val", 1, 40), "big": ("val", -1, 10), "zero": ("zero", 0, 0), "nan": ("nan", 0, 0),
    "valueerror": ("raise", 1, 0), "linalgerror": ("raise", 2, 0),
}
PREV_POS = 1000.5

CFG = """SPECIFICATION Spec
CONSTANTS
  Solver = "{solver}"
  MaxIters = {maxiters}
  MaxLS = {maxls}
  JE = {je}
  TE = {te}
  Alphabet <- AlphabetDef
INVARIANT ReturnsOnlyConverged
INVARIANT Terminates
INVARIANT Bounded
INVARIANT LagrangeForm
INVARIANT FaultsContained
INVARIANT PrintTerminal
CHECK_DEADLOCK FALSE
"""


def configs(tier):
    full = list(TOKENS)
    small = ["tiny", "mid", "small", "one", "nan", "valueerror"]
    out = []
    for je in (0, -16, 4):
        out.append(dict(solver="newton", je=je, te=-2, maxiters=3 if tier == "quick" else 4, maxls=1, alphabet=full))
        if je == 4:
            continue
        out.append(dict(solver="linesearch", je=je, te=-2, maxiters=2, maxls=2, alphabet=full if tier == "thorough" else small + ["huge", "zero"]))
    out.append(dict(solver="linesearch", je=0, te=-2, maxiters=4, maxls=2, alphabet=["one", "tiny", "zero"]))
    out.append(dict(solver="quasi", je=0, te=-2, maxiters=3 if tier == "quick" else 4, maxls=1, alphabet=full))
    # a long time step (|t| = 4 > pi): for the Gaussian-split system the flow derivative sin|t| is negative
    out.append(dict(solver="quasi", je=0, te=2, maxiters=3, maxls=1, alphabet=full))
    out.append(dict(solver="newton", je=0, te=2, maxiters=3, maxls=1, alphabet=full))
    out.append(dict(solver="fpdirect", je=0, te=-2, maxiters=3 if tier == "quick" else 4, maxls=1, alphabet=full))
    if tier == "thorough":
        out.append(dict(solver="linesearch", je=0, te=-2, maxiters=3, maxls=2, alphabet=small))
    return out


def run_spec_one(idx, c, name):
    d = tlc.fresh_dir(f"{name}_{idx}")
    tlc.stage_specs(d, ["Solvers.tla"])
    src = (d / "Solvers.tla").read_text()
    alpha = "{" + ", ".join('<<"%s", %s, %s>>' % (TOKENS[a][0], tlc.to_tla(TOKENS[a][1]), tlc.to_tla(TOKENS[a][2]))
                            for a in c["alphabet"]) + "}"
    src = src.replace("=============================================================================",
                      f"AlphabetDef == {alpha}\n=============================================================================")
    (d / "Solvers.tla").write_text(src)
    cfg = CFG.format(solver=c["solver"], maxiters=c["maxiters"], maxls=c["maxls"], je=c["je"], te=c["te"])
    cfg = cfg.replace(f"JE = {c['je']}", f"JE = {c['je']}" if c["je"] >= 0 else "JE <- JEDef").replace(
        f"TE = {c['te']}", "TE <- TEDef")
    src = (d / "Solvers.tla").read_text().replace(
        "AlphabetDef ==", f"JEDef == {tlc.to_tla(c['je'])}\nTEDef == {tlc.to_tla(c['te'])}\nAlphabetDef ==")
    (d / "Solvers.tla").write_text(src)
    return tlc.run_tlc(d, "Solvers", cfg, workers=2, timeout=900, cpus=2, heap="3g")


def run_spec(cfgs, name):
    with ThreadPoolExecutor(max_workers=min(8, len(cfgs))) as ex:
        results = list(ex.map(lambda a: run_spec_one(a[0], a[1], name), enumerate(cfgs)))
    behaviours, gen, dist = [], 0, 0
    for c, res in zip(cfgs, results):
        if not res.ok:
            raise MachineryError(f"Solvers.tla violates its own invariant {res.violated} for {c}:\n{res.stdout[-2000:]}")
        gen += res.generated
        dist += res.distinct
        for r in res.printed:
            if isinstance(r, dict) and "script" in r:
                r["cfg"] = c
                behaviours.append(r)
    return behaviours, {"generated": gen, "distinct": dist}


# --------------------------------------------------------------------------------------
# real solvers on a scripted real system
# --------------------------------------------------------------------------------------
class ScriptExhausted(Exception):
    pass


class ScriptedConstraint:
    def __init__(self, script, je):
        self.script, self.je, self.n = list(script), je, 0
        self.residuals = []

    def constr(self, q):
        from mici.errors import LinAlgError

        if self.n >= len(self.script):
            # the documented algorithm never evaluates the constraint beyond the script; an implementation
            # that carries on (a fallback, an extra polishing pass) sees a constraint that is satisfied to
            # 2^-40 from here on, so that whatever it then returns can be judged by the property itself
            if self.n >= len(self.script) + 200:
                raise ScriptExhausted
            kind, sign, exp = "val", 1, -40
        else:
            kind, sign, exp = self.script[self.n]
        self.n += 1
        if kind == "raise":
            self.residuals.append(None)
            if sign == 1:
                raise ValueError("scripted")
            raise LinAlgError("scripted")
        if kind == "nan" or not np.all(np.isfinite(q)):
            v = math.nan
        elif kind == "zero":
            v = 0.0
        else:
            v = sign * 2.0**exp
        self.residuals.append(v)
        return np.array([v])

    def jacob(self, q):
        if q[0] == PREV_POS:
            return np.array([[1.0]])
        return np.array([[2.0**self.je]])


def terms_value(terms):
    if any(t[0] == 0 for t in terms):
        return math.nan
    return math.fsum(t[0] * 2.0 ** t[1] for t in terms)


def replay_projection(b, tsign, kind="euclid"):
    """Replay one spec behaviour into the real projection solver; returns observation dict.
    kind "gaussian": the Gaussian-split constrained system, whose h2 flow derivative is
    (sin|t|, cos t) instead of (|t|, 1) -- same control flow, different multiplier scaling."""
    import mici.solvers as S
    from mici.errors import ConvergenceError
    from mici.states import ChainState
    from mici.systems import DenseConstrainedEuclideanMetricSystem, GaussianDenseConstrainedEuclideanMetricSystem

    c = b["cfg"]
    sc = ScriptedConstraint([tuple(t) for t in b["script"]], c["je"])
    cls = DenseConstrainedEuclideanMetricSystem if kind == "euclid" else GaussianDenseConstrainedEuclideanMetricSystem
    kw = {} if kind == "euclid" else {"mhp_constr": lambda q: (lambda m: np.zeros_like(q))}
    system = cls(
        lambda q: 0.0, sc.constr, metric=np.array([1.0]), grad_neg_log_dens=lambda q: np.zeros_like(q),
        jacob_constr=sc.jacob, **kw)
    state = ChainState(pos=np.array([1.0]), mom=np.array([0.25]), dir=1)
    state_prev = ChainState(pos=np.array([PREV_POS]), mom=np.array([0.0]), dir=1)
    prev_before = (state_prev.pos.copy(), state_prev.mom.copy())
    t = tsign * 2.0 ** c["te"]
    fn = {"newton": S.solve_projection_onto_manifold_newton, "quasi": S.solve_projection_onto_manifold_quasi_newton,
          "linesearch": S.solve_projection_onto_manifold_newton_with_line_search}[c["solver"]]
    kw = {"max_iters": c["maxiters"]}
    if c["solver"] == "linesearch":
        kw["max_line_search_iters"] = c["maxls"]
    obs = {"outcome": None, "exc": None}
    try:
        fn(state, state_prev, t, system, **kw)
        obs["outcome"] = "return"
    except ConvergenceError:
        obs["outcome"] = "ConvergenceError"
    except ScriptExhausted:
        obs["outcome"] = "script-exhausted"
    except BaseException as e:  # noqa: BLE001
        if isinstance(e, (KeyboardInterrupt, SystemExit)):
            raise
        obs["outcome"], obs["exc"] = "foreign-exception", f"{type(e).__name__}: {e}"
    obs["consumed"] = sc.n
    obs["dpos"] = float(state.pos[0] - 1.0)
    obs["dmom"] = float(state.mom[0] - 0.25)
    obs["last_residual"] = sc.residuals[-1] if sc.residuals else None
    obs["prev_untouched"] = bool(np.array_equal(state_prev.pos, prev_before[0]) and np.array_equal(state_prev.mom, prev_before[1]))
    obs["t"] = t
    obs["cpos"], obs["cmom"] = (abs(t), 1.0) if kind == "euclid" else (math.sin(abs(t)), math.cos(t))
    return obs


def replay_fixed_point(b, which="direct"):
    import mici.solvers as S
    from mici.errors import ConvergenceError, LinAlgError

    c = b["cfg"]
    script = [tuple(t) for t in b["script"]]
    n = [0]
    incs = []

    def func(x):
        if n[0] >= len(script):
            raise ScriptExhausted
        kind, sign, exp = script[n[0]]
        n[0] += 1
        if kind == "raise":
            if sign == 1:
                raise ValueError("scripted")
            raise LinAlgError("scripted")
        inc = math.nan if kind == "nan" else (0.0 if kind == "zero" else sign * 2.0**exp)
        incs.append(inc)
        return x + inc

    obs = {"outcome": None, "exc": None}
    x0 = np.array([0.0])
    try:
        x = S.solve_fixed_point_direct(func, x0, max_iters=c["maxiters"])
        obs["outcome"] = "return"
        obs["x"] = float(x[0])
    except ConvergenceError:
        obs["outcome"] = "ConvergenceError"
    except ScriptExhausted:
        obs["outcome"] = "script-exhausted"
    except BaseException as e:  # noqa: BLE001
        if isinstance(e, (KeyboardInterrupt, SystemExit)):
            raise
        obs["outcome"], obs["exc"] = "foreign-exception", f"{type(e).__name__}: {e}"
    obs["consumed"] = n[0]
    obs["last_inc"] = incs[-1] if incs else None
    return obs


CTOL, PTOL = 1e-9, 1e-8


def check_behaviour(b):
    """Returns (violations [(owner, sig, what)], drifts [str], n_real_runs)."""
    c = b["cfg"]
    viol, drift = [], []
    runs = 0
    sname = c["solver"]
    script_s = " ".join(f"{t[0]}{'' if t[0] != 'val' else ('+' if t[1] > 0 else '-') + '2^' + str(t[2])}" for t in b["script"])
    if sname == "fpdirect":
        obs = replay_fixed_point(b)
        runs += 1
        if obs["outcome"] == "foreign-exception":
            viol.append(("C12", f"C12:solver:fixed_point_direct:foreign-exception:{obs['exc'].split(':')[0]}",
                         f"solve_fixed_point_direct let {obs['exc']} escape (script {script_s})"))
        elif obs["outcome"] == "return" and not (obs["last_inc"] is not None and abs(obs["last_inc"]) < CTOL):
            viol.append(("C12", "C12:solver:fixed_point_direct:unconverged-return",
                         f"solve_fixed_point_direct returned although the last error was {obs['last_inc']} (script {script_s})"))
        if obs["outcome"] != b["outcome"] or obs["consumed"] != len(b["script"]):
            drift.append(f"fpdirect script {script_s}: implementation {obs['outcome']} after {obs['consumed']} evaluations, spec {b['outcome']} after {len(b['script'])}")
        elif obs["outcome"] == "return" and not math.isclose(obs["x"], terms_value(b["dpos"]), rel_tol=1e-12, abs_tol=0):
            drift.append(f"fpdirect script {script_s}: returned {obs['x']} vs spec {terms_value(b['dpos'])}")
        return viol, drift, runs
    full = {"newton": "newton", "quasi": "quasi_newton", "linesearch": "newton_with_line_search"}[sname]
    for tsign, kind in ((1, "euclid"), (-1, "euclid"), (1, "gaussian"), (-1, "gaussian")):
        obs = replay_projection(b, tsign, kind)
        runs += 1
        where = f"solve_projection_onto_manifold_{full} ({kind} system, J=2^{c['je']}, t={obs['t']}, script {script_s})"
        if obs["outcome"] == "foreign-exception":
            owner_sig = f"C12:solver:{full}:foreign-exception:{obs['exc'].split(':')[0]}"
            viol.append(("C12", owner_sig, f"{where} let {obs['exc']} escape"))
            viol.append(("C04", f"C04:solver:{full}:foreign-exception:{obs['exc'].split(':')[0]}", f"{where} let {obs['exc']} escape"))
            continue
        if not obs["prev_untouched"]:
            viol.append(("C04", f"C04:solver:{full}:state_prev-modified", f"{where} modified state_prev"))
        if obs["outcome"] == "return":
            lr = obs["last_residual"]
            if lr is None or not (abs(lr) < CTOL):
                for owner in ("C04", "C12"):
                    viol.append((owner, f"{owner}:solver:{full}:unconverged-return",
                                 f"{where} returned although the last constraint residual was {lr}"))
            # Lagrange-multiplier form: pos moved by -|t| M^-1 J_prev^T mu, mom by -sign(t) mu, same mu
            mu_pos = -obs["dpos"] / obs["cpos"]
            mu_mom = -obs["dmom"] * tsign / obs["cmom"]
            # (the position displacement is recovered from pos - 1.0: absolute rounding error ~1e-16)
            if not (math.isclose(mu_pos, mu_mom, rel_tol=1e-6, abs_tol=1e-14) or (math.isnan(mu_pos) and math.isnan(mu_mom))):
                viol.append(("C04", f"C04:solver:{full}:lagrange-form",
                             f"{where} returned a position moved with multiplier {mu_pos!r} but a momentum corrected with "
                             f"multiplier {mu_mom!r}: not of the form (q + dPhi_q J^T lam, p + dPhi_p J^T lam)"))
        # conformance with the spec behaviour
        if obs["outcome"] != b["outcome"] or obs["consumed"] != len(b["script"]):
            drift.append(f"{where}: implementation {obs['outcome']} after {obs['consumed']} evaluations, spec {b['outcome']} after {len(b['script'])}")
        elif obs["outcome"] == "return":
            want_dpos = terms_value(b["dpos"])
            want_mu = terms_value(b["mu"]) * abs(obs["t"]) / obs["cpos"]
            obs_mu = -obs["dmom"] * tsign / obs["cmom"]
            if not (math.isclose(obs["dpos"], want_dpos, rel_tol=1e-6, abs_tol=1e-14) or (math.isnan(want_dpos) and math.isnan(obs["dpos"]))):
                drift.append(f"{where}: position displacement {obs['dpos']!r} vs spec {want_dpos!r}")
            if not (math.isclose(obs_mu, want_mu, rel_tol=1e-6, abs_tol=1e-14) or (math.isnan(want_mu) and math.isnan(obs["dmom"]))):
                drift.append(f"{where}: multiplier {obs_mu!r} vs spec {want_mu!r}")
    return viol, drift, runs


def check_all(tier, name):
    cfgs = configs(tier)
    behaviours, stats = run_spec(cfgs, name)
    viol, drift, runs = [], [], 0
    seen = set()
    for b in behaviours:
        v, d, r = check_behaviour(b)
        runs += r
        for x in v:
            key = (x[0], x[1])
            if key not in seen:
                seen.add(key)
                viol.append((x[0], x[1], x[2], {"engine": "solvers", "behaviour": {k: b[k] for k in ("script", "outcome", "mu", "dpos", "cfg")}}))
        drift += d
    return {"behaviours": behaviours, "stats": stats, "viol": viol, "drift": drift, "runs": runs, "cfgs": cfgs}


def steffensen_faults():
    """Implementation-level fault enumeration for solve_fixed_point_steffensen (not modelled in TLA+:
    its update divides by second differences).  Returns violations (owner, sig, what)."""
    import itertools

    import mici.solvers as S
    from mici.errors import ConvergenceError, LinAlgError

    viol, n = [], 0
    toks = [("ok",), ("nan",), ("inf",), ("valueerror",), ("linalgerror",)]
    for script in itertools.product(toks, repeat=3):
        calls = [0]

        def func(x, script=script, calls=calls):
            k = calls[0]
            calls[0] += 1
            tok = script[k][0] if k < len(script) else "ok"
            if tok == "valueerror":
                raise ValueError("scripted")
            if tok == "linalgerror":
                raise LinAlgError("scripted")
            if tok == "nan":
                return x * np.nan
            if tok == "inf":
                return x + np.inf
            return 0.5 * np.cos(x)

        n += 1
        try:
            x = S.solve_fixed_point_steffensen(func, np.array([0.3, -0.2]), max_iters=6)
            if not np.all(np.isfinite(x)) or np.max(np.abs(0.5 * np.cos(x) - x)) > 1e-6:
                viol.append(("C12", "C12:solver:fixed_point_steffensen:unconverged-return",
                             f"solve_fixed_point_steffensen returned {x} which is not a fixed point (fault script {script})"))
        except ConvergenceError:
            pass
        except BaseException as e:  # noqa: BLE001
            if isinstance(e, (KeyboardInterrupt, SystemExit)):
                raise
            viol.append(("C12", f"C12:solver:fixed_point_steffensen:foreign-exception:{type(e).__name__}",
                         f"solve_fixed_point_steffensen let {type(e).__name__}: {e} escape (fault script {script})"))
    return viol, n
