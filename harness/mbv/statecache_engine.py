"""Engine for specs/StateCache.tla (C09, C18).

1. The declared cache dependencies / auxiliary outputs of every memoised system method are
   extracted from the *running code* and written to CacheConsts.tla; the documented
   reads/calls tables stay in CacheTables.tla.
2. TLC explores all histories (assign / copy / pickle / call) up to the bounds and checks
   Fresh (C09) and NoRecompute (C18); a counterexample is replayed on the real classes and
   reported only if the real code exhibits it.
3. Every behaviour TLC exports (one path per distinct state, see PrintLeaf) is replayed on real
   systems of the class: after each action the returned value is compared with a from-scratch
   evaluation on a freshly constructed state (decisive for C09), and the user-function
   evaluations are compared with the spec's prediction (decisive for C18 where the contract
   says "no evaluation").
"""

from __future__ import annotations

import inspect
import json
import pickle
import random
import shutil
from concurrent.futures import ThreadPoolExecutor

import numpy as np

from mbv import tlc, zoo
from mbv.tlc import MachineryError

# entry points offered as Call actions, per documentation table (CacheTables.tla)
ENTRY = {
    "Euclidean": ["neg_log_dens", "grad_neg_log_dens", "h2", "dh2_dmom", "h", "dh_dpos"],
    "Gaussian": ["neg_log_dens", "grad_neg_log_dens", "h2", "dh2_dmom", "dh2_dpos", "h"],
    "Constrained": ["neg_log_dens", "grad_neg_log_dens", "constr", "jacob_constr", "gram", "mhp_constr",
                    "grad_log_det_sqrt_gram", "h1", "dh1_dpos", "h"],
    "ConstrainedHausdorff": ["neg_log_dens", "grad_neg_log_dens", "constr", "jacob_constr", "gram",
                             "inv_gram", "h", "dh1_dpos"],
    "Riemannian": ["neg_log_dens", "grad_neg_log_dens", "metric_func", "vjp_metric_func", "metric",
                   "h1", "dh1_dpos", "h2", "dh2_dpos"],
    "SoftAbs": ["neg_log_dens", "grad_neg_log_dens", "hess_neg_log_dens", "mtp_neg_log_dens", "metric",
                "dh1_dpos", "h", "dh2_dpos"],
}
# all method names of each documentation table (kept in sync with CacheTables.tla by a self-check)
TABLE_METHODS = {
    "Euclidean": ["neg_log_dens", "grad_neg_log_dens", "h2", "dh2_dmom", "h1", "dh1_dpos", "h", "dh_dmom", "dh_dpos"],
    "Gaussian": ["neg_log_dens", "grad_neg_log_dens", "h2", "dh2_dmom", "dh2_dpos", "h1", "dh1_dpos", "h", "dh_dmom"],
    "Constrained": ["neg_log_dens", "grad_neg_log_dens", "h2", "dh2_dmom", "constr", "jacob_constr", "gram",
                    "mhp_constr", "grad_log_det_sqrt_gram", "inv_gram", "log_det_sqrt_gram", "h1", "dh1_dpos",
                    "h", "dh_dmom"],
    "ConstrainedHausdorff": ["neg_log_dens", "grad_neg_log_dens", "h2", "dh2_dmom", "constr", "jacob_constr",
                             "gram", "inv_gram", "h1", "dh1_dpos", "h", "dh_dmom"],
    "Riemannian": ["neg_log_dens", "grad_neg_log_dens", "metric_func", "vjp_metric_func", "metric", "h1",
                   "dh1_dpos", "h2", "dh2_dpos", "dh2_dmom", "h", "dh_dmom", "dh_dpos"],
    "SoftAbs": ["neg_log_dens", "grad_neg_log_dens", "hess_neg_log_dens", "mtp_neg_log_dens", "metric_func",
                "vjp_metric_func", "metric", "h1", "dh1_dpos", "h2", "dh2_dpos", "dh2_dmom", "h", "dh_dmom",
                "dh_dpos"],
}
USER_FN = {  # which user function a memoised method evaluates (mirror of the `fn` column)
    "neg_log_dens": "neg_log_dens", "grad_neg_log_dens": "grad_neg_log_dens", "constr": "constr",
    "jacob_constr": "jacob_constr", "mhp_constr": "mhp_constr", "metric_func": "metric_func",
    "vjp_metric_func": "vjp_metric_func", "hess_neg_log_dens": "hess_neg_log_dens",
    "mtp_neg_log_dens": "mtp_neg_log_dens",
}


# --------------------------------------------------------------------------------------
# extraction of the code-side tables
# --------------------------------------------------------------------------------------
def extract_tables(kind, flavour, with_aux):
    """Declared / Aux / CallableV / WithAux for the memoised methods of a real system."""
    from mici.states import ChainState

    model = zoo.Model(3, with_aux=with_aux)
    system = zoo.make_system(kind, model, flavour=flavour)
    declared, aux, callable_v, withaux, memo = {}, {}, {}, {}, []
    for m in TABLE_METHODS[kind]:
        fn = getattr(type(system), m)
        try:
            nl = inspect.getclosurevars(fn).nonlocals
        except TypeError:
            nl = {}
        if "depends_on" not in nl:
            continue
        memo.append(m)
        dep = nl["depends_on"]
        declared[m] = sorted({dep} if isinstance(dep, str) else set(dep))
        ax = nl.get("auxiliary_outputs", ())
        aux[m] = [ax] if isinstance(ax, str) else list(ax)
        # dynamic cross-check + callable measurement on a fresh state
        st = ChainState(pos=np.array([0.3, -0.2, 0.5]), mom=np.array([0.1, 0.4, -0.3]), dir=1)
        val = getattr(system, m)(st)
        key = next(k for k in st._cache if (k[0] if isinstance(k, tuple) else str(k)).endswith("." + m))
        dyn = sorted(v for v, ks in st._dependencies.items() if key in ks)
        if dyn != declared[m]:
            raise MachineryError(f"dependency extraction mismatch for {kind}.{m}: closure {declared[m]} vs dynamic {dyn}")
        callable_v[m] = callable(val)
        # does evaluating m fill its auxiliary keys in this return convention?
        filled = [a for a in aux[m] if any((k[0] if isinstance(k, tuple) else str(k)).endswith("." + a) and st._cache.get(k) is not None for k in st._cache)]
        withaux[m] = bool(aux[m]) and len(filled) == len(aux[m])
    return {"declared": declared, "aux": aux, "callable": callable_v, "withaux": withaux, "memo": memo}


def consts_module(kind, tabs, nobj, nsys, maxsteps, entry):
    def rec(d, f):
        return "[" + ", ".join(f"{k} |-> {f(v)}" for k, v in d.items()) + "]"

    decl = rec(tabs["declared"], lambda v: tlc.to_tla(set(v)) if v else "{}")
    auxd = {k: v for k, v in tabs["aux"].items() if v}
    aux = rec(auxd, lambda v: tlc.to_tla(list(v))) if auxd else "[nothing |-> <<>>]"
    return (
        "---- MODULE CacheConsts ----\n"
        f"Class == {tlc.tla_str(kind)}\n"
        f"Declared == {decl}\nAux == {aux}\n"
        f"CallableV == {rec(tabs['callable'], tlc.to_tla)}\n"
        f"WithAux == {rec(tabs['withaux'], tlc.to_tla)}\n"
        f"NObj == {nobj}\nNSys == {nsys}\nMaxSteps == {maxsteps}\n"
        f"Entry == {tlc.to_tla(set(entry))}\n====\n"
    )


CFG = """SPECIFICATION Spec
INVARIANT TypeOK
{props}INVARIANT PrintLeaf
VIEW View
CHECK_DEADLOCK FALSE
"""
PROPS = "INVARIANT Fresh\nINVARIANT NoRecompute\n"


def run_model(name, kind, tabs, *, nobj, nsys, maxsteps, entry, props=True, simulate=None, seed=0,
              workers=4, timeout=1200):
    d = tlc.fresh_dir(name)
    tlc.stage_specs(d, ["StateCache.tla", "CacheTables.tla"])
    (d / "CacheConsts.tla").write_text(consts_module(kind, tabs, nobj, nsys, maxsteps, entry))
    cfg = CFG.format(props=PROPS if props else "")
    kw = {}
    if simulate:
        kw = {"simulate": f"num={simulate}", "depth": maxsteps + 1, "seed": seed}
    res = tlc.run_tlc(d, "StateCache", cfg, workers=workers, timeout=timeout, dump_trace=True, cpus=2, heap="2g", **kw)
    return res


# --------------------------------------------------------------------------------------
# the real world the behaviours are replayed into
# --------------------------------------------------------------------------------------
def _val(n, ver):
    rng = np.random.default_rng(1000 + ver)
    return rng.standard_normal(n) * 0.6


def _same(a, b):
    """structural comparison of two system-method results."""
    import mici.matrices as M

    if callable(a) and callable(b) and not isinstance(a, M.Matrix):
        for probe in (np.arange(1.0, 10.0).reshape(3, 3) / 7.0, np.array([0.3, -0.7, 1.1]),
                      np.arange(1.0, 7.0).reshape(2, 3) / 5.0, 0.37):
            try:
                ra = a(probe)
            except Exception:  # noqa: BLE001
                continue
            rb = b(probe)
            return np.allclose(ra, rb, rtol=1e-10, atol=1e-12)
        return True
    if isinstance(a, M.Matrix):
        return isinstance(b, M.Matrix) and np.allclose(a.array, b.array, rtol=1e-10, atol=1e-12)
    return np.allclose(np.asarray(a, dtype=float), np.asarray(b, dtype=float), rtol=1e-10, atol=1e-12, equal_nan=True)


class World:
    def __init__(self, kind, flavour, with_aux, nsys, assign_mode="parity", metric="dense", model_kw=None):
        from mici.states import ChainState

        self.kind, self.assign_mode = kind, assign_mode
        import copy as _copy

        self.models = {1: zoo.Model(3, with_aux=with_aux, **(model_kw or {}))}
        self.systems = {1: zoo.make_system(kind, self.models[1], flavour=flavour, metric=metric)}
        if nsys > 1:
            # the second system object is a DUPLICATE (deep copy) of the first one, taken after the first one
            # has already been used, with a different target: two distinct system objects sharing states
            scratch = ChainState(pos=_val(3, 901), mom=_val(3, 902), dir=1)
            for m in TABLE_METHODS[kind][:4]:
                try:
                    getattr(self.systems[1], m)(scratch)
                except Exception:  # noqa: BLE001
                    pass
            self.models[1].calls.clear()
            s2, m2 = _copy.deepcopy((self.systems[1], self.models[1]))
            m2.shift = 0.25
            m2.calls.clear()
            self.models[2], self.systems[2] = m2, s2
            if id(s2) == id(self.systems[1]):
                raise MachineryError("deepcopy returned the same system object")
        self.objs = {1: ChainState(pos=_val(3, 1), mom=_val(3, 501), dir=1)}
        self.nextver = 2

    def fresh_copy_of(self, o):
        from mici.states import ChainState

        st = self.objs[o]
        return ChainState(pos=np.array(st.pos), mom=np.array(st.mom), dir=st.dir)

    def status(self, o, s):
        """projected cache status per memoised method: A / N / E"""
        st, out = self.objs[o], {}
        sysid = id(self.systems[s])
        for k, v in st._cache.items():
            # documented key: ("Class.method", id(system)); anything else is attributed to every system
            name, owner = (k[0], k[1]) if isinstance(k, tuple) and len(k) == 2 else (str(k), sysid)
            if owner == sysid:
                out[name.split(".", 1)[-1]] = "N" if v is None else "E"
        return out

    def apply(self, act):
        """Execute one spec action on the real objects; returns an observation dict."""
        from mici.errors import ReadOnlyStateError

        op = act["op"]
        if op == "assign" or op == "assign_ro":
            st, v = self.objs[act["o"]], act["v"]
            ver = self.nextver
            try:
                if v == "dir":
                    st.dir = -st.dir if ver % 2 else st.dir * 1
                elif op == "assign_ro" or self.assign_mode == "plain" or (
                        self.assign_mode != "inplace" and ver % 2 == (1 if self.assign_mode == "parity" else 0)):
                    # plain assignment of a new array
                    setattr(st, v, _val(3, ver + (0 if v == "pos" else 500)))
                else:  # the in-place idiom used by the flows: state.pos += ...
                    if v == "pos":
                        st.pos += 0.01 * _val(3, ver)
                    else:
                        st.mom -= 0.01 * _val(3, ver + 500)
            except ReadOnlyStateError:
                return {"raised": "ReadOnlyStateError"}
            self.nextver += 1
            return {"raised": None}
        if op == "copy":
            self.objs[act["n"]] = self.objs[act["o"]].copy(read_only=act["readonly"])
            return {}
        if op == "pickle":
            self.objs[act["n"]] = pickle.loads(pickle.dumps(self.objs[act["o"]]))
            return {}
        if op == "call":
            s, m, o = act["s"], act["m"], act["o"]
            model = self.models[s]
            before = dict(model.calls)
            cc_before = dict(self.objs[o]._call_counts)
            ret = getattr(self.systems[s], m)(self.objs[o])
            evald = sorted(k for k in model.calls if model.calls[k] > before.get(k, 0))
            counted = sorted((k[0] if isinstance(k, tuple) else str(k)).split(".", 1)[-1] for k, v in self.objs[o]._call_counts.items()
                             if v > cc_before.get(k, 0))
            other = [ss for ss in self.models if ss != s]
            # from-scratch oracle (its evaluations are not counted against the model)
            snap = dict(model.calls)
            ref = getattr(self.systems[s], m)(self.fresh_copy_of(o))
            model.calls.clear()
            model.calls.update(snap)
            return {"same": bool(_same(ret, ref)), "evald": evald, "counted": counted,
                    "status": self.status(o, s), "ret": ret, "ref": ref}
        raise MachineryError(f"unknown action {act}")


def _key_method(k):
    # JSON key of a TLA+ tuple <<"name", 1>> rendered by ToJson
    return k.split('"')[1]


def replay_history(kind, flavour, with_aux, nsys, hist, checked, results, assign_mode="parity"):
    """Replay one exported behaviour.  `checked` memoises verified prefixes."""
    w = World(kind, flavour, with_aux, nsys, assign_mode)
    prefix = ()
    for i, act in enumerate(hist):
        prefix = prefix + (json.dumps(act, sort_keys=True),)
        obs = w.apply(act)
        if prefix in checked:
            continue
        checked.add(prefix)
        results["actions"] += 1
        base = {"engine": "statecache", "kind": kind, "flavour": flavour, "with_aux": with_aux, "nsys": nsys,
                "assign_mode": assign_mode,
                "history": list(hist[: i + 1])}
        if act["op"] == "assign_ro":
            if obs.get("raised") != "ReadOnlyStateError":
                results["viol"].append(("C09", f"C09:{kind}:read-only-state-assignable",
                                        "assignment to a read-only state did not raise ReadOnlyStateError", base))
        elif act["op"] == "assign" and obs.get("raised"):
            results["drift"].append(f"{kind}: assignment raised {obs['raised']} on a writable state")
        elif act["op"] == "call":
            m = act["m"]
            results["calls"] += 1
            if not obs["same"]:
                results["viol"].append((
                    "C09", f"C09:{kind}.{m}:stale-value",
                    f"{kind}.{m} returned a value different from a from-scratch evaluation on the current "
                    f"variable values after history {_short(base['history'])}", base))
            spec_ev = sorted(act["evald"])
            extra = sorted(set(obs["evald"]) - set(spec_ev))
            if act["shouldHit"] and obs["evald"]:
                results["viol"].append((
                    "C18", f"C18:{kind}.{m}:recomputed:{','.join(obs['evald'])}",
                    f"{kind}.{m} re-evaluated user function(s) {obs['evald']} although its value was available "
                    f"by the memoisation contract, history {_short(base['history'])}", base))
            elif extra:
                results["viol"].append((
                    "C18", f"C18:{kind}.{m}:extra-evaluation:{','.join(extra)}",
                    f"{kind}.{m} evaluated user function(s) {extra} that the decorator algorithm with the "
                    f"declared dependencies does not evaluate, history {_short(base['history'])}", base))
            elif obs["evald"] != spec_ev:
                results["drift"].append(f"{kind}.{m}: evaluated {obs['evald']} where the spec predicts {spec_ev}")
            spec_counted = sorted(_key_method(k) if isinstance(k, str) else k[0] for k in act["counted"])
            if spec_counted != obs["counted"]:
                results["drift"].append(f"{kind}.{m}: _call_counts incremented for {obs['counted']}, spec {spec_counted}")
            spec_status = {_key_method(k): v for k, v in act["status"].items() if k.endswith(f"{act['s']}>>")}
            impl_status = {mm: obs["status"].get(mm, "A") for mm in spec_status}
            if impl_status != spec_status:
                results["drift"].append(f"{kind}.{m}: cache status {impl_status} vs spec {spec_status} after {_short(base['history'])}")
    return w


def _short(hist):
    out = []
    for a in hist:
        if a["op"] == "call":
            out.append(f"call {a['m']}(s{a['s']},o{a['o']})")
        elif a["op"] in ("assign", "assign_ro"):
            out.append(f"{a['op']} o{a['o']}.{a['v']}")
        elif a["op"] == "copy":
            out.append(f"o{a['n']}=copy(o{a['o']}{',ro' if a['readonly'] else ''})")
        else:
            out.append(f"o{a['n']}=pickle(o{a['o']})")
    return "; ".join(out)


def trace_to_history(trace):
    """TLC JSON counterexample -> list of `last` records."""
    hist = []
    for st in trace:
        last = st.get("last") if isinstance(st, dict) else None
        if last and last.get("op") != "init":
            hist.append(last)
    return hist


def configurations(tier):
    cfgs = []
    for kind in zoo.SYSTEM_KINDS:
        flavours = zoo.RIEMANNIAN_FLAVOURS if kind == "Riemannian" else ("-",)
        for wa in (True, False):
            cfgs.append((kind, flavours, wa))
    return cfgs


def _run_job(args):
    """One configuration: TLC run (+ counterexample handling) and replay into the real code."""
    import time

    t0 = time.time()
    job, tier, seed, pid, nsim = args
    mode, kind, flavours, wa, b = job
    tabs = extract_tables(kind, flavours[0], wa)
    gone = [m for m in documented_memo_methods()[kind] if m not in tabs["declared"]]
    if gone:
        # the code no longer memoises a method that CacheTables.tla documents as memoised: the model (whose call graph
        # refers to that entry) cannot be instantiated with the code's tables.  Not a verdict: the repeated-call family
        # and the trajectory counters decide on the real objects whether user functions are evaluated again.
        return {"wall": 0.0, "cfg": {"mode": mode, "kind": kind, "with_aux": wa, **b, "states": 0, "behaviours": 0, "declared": tabs["declared"]},
                "states": 0, "transitions": 0, "histories": 0, "actions": 0, "calls": 0, "viol": [],
                "drift": [f"{kind}: the code does not memoise {gone} although CacheTables.tla documents it; StateCache.tla not run for this class"],
                "cex": None, "sample": None}
    name = f"sc_{pid.lower()}_{tier}_{mode}_{kind}_{'aux' if wa else 'plain'}_{b['nobj']}{b['nsys']}{b['maxsteps']}"
    res = run_model(name, kind, tabs, entry=ENTRY[kind], props=True, workers=1,
                    simulate=nsim if mode == "sim" else None, seed=seed, **b)
    cex = None
    if not res.ok:
        if res.error_kind != "invariant" or res.violated not in ("Fresh", "NoRecompute"):
            raise MachineryError(f"StateCache model failed for {kind}: {res.violated}\n{res.stdout[-1500:]}")
        cex = (res.violated, trace_to_history(res.trace or []))
        if mode == "bfs":  # re-run without the property invariants to export all behaviours
            res2 = run_model(name + "_noprop", kind, tabs, entry=ENTRY[kind], props=False, workers=1, **b)
            res.printed = res2.printed
            res.generated, res.distinct = res2.generated, res2.distinct
    hists = [h for h in res.printed if isinstance(h, list)]
    rnd = random.Random(seed)
    results = {"actions": 0, "calls": 0, "viol": [], "drift": []}
    for fl in flavours:
        checked = set()
        sub = hists if fl == flavours[0] or len(hists) < 300 else rnd.sample(hists, 300)
        for hi, h in enumerate(sub):
            replay_history(kind, fl, wa, b["nsys"], h, checked, results)
            if hi % 7 == 0:  # a second pass over a sample with the other assignment idiom
                replay_history(kind, fl, wa, b["nsys"], h, set(), results, assign_mode="antiparity")
    cex_info = None
    if cex is not None:
        inv, hist = cex
        r2 = {"actions": 0, "calls": 0, "viol": [], "drift": []}
        for mode_ in ("plain", "inplace", "parity", "antiparity"):
            if hist and not r2["viol"]:
                replay_history(kind, flavours[0], wa, b["nsys"], hist, set(), r2, assign_mode=mode_)
        confirmed = [v for v in r2["viol"] if (v[0] == "C09") == (inv == "Fresh")]
        cex_info = {"kind": kind, "invariant": inv, "history": _short(hist), "confirmed_on_code": bool(confirmed)}
        results["viol"] += r2["viol"]
        if not confirmed:
            results["drift"].append(
                f"TLC counterexample to {inv} for {kind} not reproduced by the real code: {_short(hist)}")
    # keep the result small: one violation per signature
    seen, viol = set(), []
    for v in results["viol"]:
        if v[1] not in seen:
            seen.add(v[1])
            viol.append(v)
    return {
        "wall": round(time.time() - t0, 1),
        "cfg": {"mode": mode, "kind": kind, "with_aux": wa, **b, "states": res.distinct,
                "behaviours": len(hists), "declared": tabs["declared"]},
        "states": res.distinct, "transitions": res.generated, "histories": len(hists),
        "actions": results["actions"], "calls": results["calls"], "viol": viol,
        "drift": sorted(set(results["drift"]))[:20], "cex": cex_info,
        "sample": {"kind": kind, "with_aux": wa, "history": _short(hists[len(hists) // 2])} if hists else None,
    }


def documented_memo_methods():
    """kind -> methods that CacheTables.tla documents as memoised (memo = TRUE), parsed from the module text."""
    import re

    text = (tlc.SPECS / "CacheTables.tla").read_text()
    blocks = {m.group(1): m.group(2) for m in re.finditer(r"^(\w+)Table ==\n(.*?)(?=^\w+ ==|^=====)", text, re.S | re.M)}
    out = {}
    for kind in zoo.SYSTEM_KINDS:
        names = []
        for blk in (blocks.get("Base", ""), blocks.get(kind, "")):
            names += [m.group(1) for m in re.finditer(r"(\w+)\s*\|->\s*M\([^\n]*?,\s*TRUE\)", blk)]
        out[kind] = [n for n in dict.fromkeys(names) if n in TABLE_METHODS[kind]]
    return out


def repeat_call_family():
    """C18 on the real classes, independent of which methods the code declares as memoised: every method that
    CacheTables.tla documents as memoised is called on a state, then again on the same state and on a copy; the second
    and third call must evaluate no user model function -- counting the calls of the user functions AND the applications
    of the callables they return (matrix-Hessian / vector-Jacobian / matrix-tressian products).
    Returns (violations, number of calls)."""
    from collections import Counter

    from mici.states import ChainState

    viol, ncalls = [], 0
    doc = documented_memo_methods()
    for kind in zoo.SYSTEM_KINDS:
        if not doc.get(kind):
            raise MachineryError(f"no documented memoised methods parsed for {kind}")
        for wa in (False, True):
            for fl in (zoo.RIEMANNIAN_FLAVOURS if kind == "Riemannian" else ("-",)):
                model = zoo.Model(3, with_aux=wa)
                applied = Counter()

                def wrap(name, model=model, applied=applied):
                    orig = getattr(model, name)

                    def counting(q):
                        r = orig(q)

                        def cnt(c):
                            def call(*a):
                                applied[name] += 1
                                return c(*a)
                            return call
                        return (cnt(r[0]),) + tuple(r[1:]) if isinstance(r, tuple) else cnt(r)
                    setattr(model, name, counting)

                for name in [a for a in dir(model) if a == "mhp_constr" or a == "mtp_neg_log_dens" or a.startswith("vjp_metric_")]:
                    wrap(name)
                system = zoo.make_system(kind, model, flavour=fl)
                pos = zoo.on_manifold_point(model, 3) if "Constrained" in kind else np.array([0.3, -0.2, 0.5])
                st0 = ChainState(pos=np.array(pos), mom=None, dir=1)
                mom = system.sample_momentum(st0, np.random.default_rng(2))
                state = ChainState(pos=np.array(pos), mom=np.array(mom), dir=1)
                methods = [m for m in doc[kind] if hasattr(system, m)]
                for m in methods:
                    getattr(system, m)(state)
                for m in methods:
                    for target, how in ((state, "the same state"), (state.copy(), "a copy of the state")):
                        before = sum(model.calls.values()) + sum(applied.values())
                        cb, ab = dict(model.calls), dict(applied)
                        getattr(system, m)(target)
                        ncalls += 1
                        if sum(model.calls.values()) + sum(applied.values()) != before:
                            again = sorted([k for k in model.calls if model.calls[k] > cb.get(k, 0)]
                                           + [k + " (callable applied)" for k in applied if applied[k] > ab.get(k, 0)])
                            viol.append(("C18", f"C18:{kind}:{m}:recomputed-on-repeated-call",
                                         f"{kind}{'' if fl == '-' else '[' + fl + ']'} ({'tuple' if wa else 'plain'} return convention): "
                                         f"calling {m} again on {how} evaluated user code again: {again}",
                                         {"engine": "statecache-repeat", "kind": kind, "method": m}))
                            break
    seen, out = set(), []
    for v in viol:
        if v[1] not in seen:
            seen.add(v[1])
            out.append(v)
    return out, ncalls


def alias_family():
    """Scripted history families (decided on the real objects by the from-scratch oracle and the user-function
    call counters; they complement the histories enumerated by TLC, which are too short or too sparse for them).
    Returns (violations [(owner, sig, what, replay)], number of calls).

    alias   : cached values that ALIAS a variable array of the state (the identity metric applied to the momentum
              returns the momentum array itself, the Gaussian system's dh2_dpos the position array): every method
              is called on o1, o1 is copied / pickled, a variable of one of the two states is updated with the
              in-place idiom of the flows (state.mom -= ...), and every method is called on both states again.
    pickle  : a state is pickled while some of its cache entries are invalidated (right after an assignment):
              the unpickled state and copies of it must keep invalidating those entries on later assignments.
    aliasfn : a user gradient function that returns its ARGUMENT (the position array object): values cached
              from it survive copies (no re-evaluation, C18) and stay correct under in-place updates (C09)."""
    viol, ncalls = [], 0

    def run(kind, fl, wa, metric, hist, label, rp, model_kw=None, no_recompute_from=None):
        nonlocal ncalls
        w = World(kind, fl, wa, 1, assign_mode="inplace", metric=metric, model_kw=model_kw)
        for i, act in enumerate(hist):
            try:
                obs = w.apply(act)
            except Exception as e:  # noqa: BLE001
                raise MachineryError(f"history family {label}: {kind}/{metric}: {act} raised {e!r}") from e
            if act["op"] != "call":
                continue
            ncalls += 1
            if not obs["same"]:
                viol.append(("C09", f"C09:{kind}.{act['m']}:stale-value",
                             f"{kind} (metric {metric}).{act['m']} returned a value different from a from-scratch evaluation on "
                             f"the current variable values after history {_short(hist[: i + 1])}", rp))
                return
            if no_recompute_from is not None and no_recompute_from[0] <= i < no_recompute_from[1] and obs["evald"]:
                viol.append(("C18", f"C18:{kind}.{act['m']}:recomputed:{','.join(obs['evald'])}",
                             f"{kind} (metric {metric}).{act['m']} re-evaluated user function(s) {obs['evald']} on a copy although every "
                             f"method had been evaluated on the original state and nothing was assigned since, history {_short(hist[: i + 1])}", rp))
                return

    for kind, flavours, wa in configurations("quick"):
        if not wa:
            continue
        methods = TABLE_METHODS[kind]
        calls = lambda o: [{"op": "call", "s": 1, "m": m, "o": o} for m in methods]  # noqa: E731
        metrics = ("identity", "dense", "diag") if kind in ("Euclidean", "Gaussian", "Constrained", "ConstrainedHausdorff") else ("dense",)
        fl = flavours[0]
        for metric in metrics:
            for derive in ("copy", "copy-ro", "pickle"):
                for touched in (1, 2):
                    if derive == "copy-ro" and touched == 2:
                        continue
                    mk = ({"op": "pickle", "o": 1, "n": 2} if derive == "pickle" else {"op": "copy", "o": 1, "n": 2, "readonly": derive == "copy-ro"})
                    hist = calls(1) + [mk, {"op": "assign", "o": touched, "v": "mom"}, {"op": "assign", "o": touched, "v": "pos"}] + calls(2) + calls(1)
                    run(kind, fl, wa, metric, hist, "alias",
                        {"engine": "statecache-family", "family": "alias", "kind": kind, "metric": metric, "derive": derive, "touched": touched})
        # pickled while invalidated
        for var in ("pos", "mom"):
            hist = (calls(1) + [{"op": "assign", "o": 1, "v": var}, {"op": "pickle", "o": 1, "n": 2}, {"op": "copy", "o": 2, "n": 3, "readonly": False}]
                    + calls(2) + [{"op": "assign", "o": 2, "v": var}] + calls(2)
                    + calls(3) + [{"op": "assign", "o": 3, "v": var}] + calls(3))
            run(kind, fl, wa, metrics[-1] if len(metrics) > 1 else "dense", hist, "pickle",
                {"engine": "statecache-family", "family": "pickle", "kind": kind, "var": var})
        # user gradient function returning its argument
        if kind != "SoftAbs":
            for derive in ("copy", "copy-ro"):
                mk = {"op": "copy", "o": 1, "n": 2, "readonly": derive == "copy-ro"}
                hist = calls(1) + [mk] + calls(2) + [{"op": "assign", "o": 1, "v": "pos"}] + calls(2) + calls(1)
                run(kind, fl, wa, "dense", hist, "aliasfn",
                    {"engine": "statecache-family", "family": "aliasfn", "kind": kind, "derive": derive},
                    model_kw={"alias_grad": True}, no_recompute_from=(len(methods) + 1, 2 * len(methods) + 1))
    seen, out = set(), []
    for v in viol:
        if (v[0], v[1]) not in seen:
            seen.add((v[0], v[1]))
            out.append(v)
    return out, ncalls


UNBOUNDED_KEYS = {
    "Euclidean": ["neg_log_dens", "grad_neg_log_dens", "h2", "dh2_dmom"],
    "Gaussian": ["grad_neg_log_dens", "neg_log_dens", "dh2_dpos", "dh2_dmom"],
    "Constrained": ["jacob_constr", "constr", "gram", "mhp_constr"],
    "Riemannian": ["metric_func", "vjp_metric_func", "metric", "grad_neg_log_dens"],
    "SoftAbs": ["hess_neg_log_dens", "mtp_neg_log_dens", "grad_neg_log_dens", "neg_log_dens"],
}


def unbounded_histories(tier):
    """StateCacheInd.tla: the memoisation algorithm with a ghost staleness set is a FINITE-state system, so TLC's
    complete exploration covers histories of ANY length (two state objects, three dependency dictionaries, up to four
    memoised methods of a real system class).  Dep / Aux / Callable are the tables extracted from the running code,
    TrueDep the transitive reads of the documented table (CacheTables.tla); the side conditions TrueDep <= Dep are
    ASSUMEd (checked by TLC before exploring).  Returns coverage dict; raises MachineryError if the model does not
    hold or if a deliberately broken table is not rejected (vacuity guard)."""
    kinds = ["Euclidean", "Gaussian"] if tier == "quick" else list(UNBOUNDED_KEYS)
    nkeys = 3 if tier == "quick" else 4
    src = (tlc.SPECS / "StateCacheInd.tla").read_text()
    out = {"unbounded_history_models": [], "unbounded_history_states": 0}

    def run(kind, keys, break_dep, name):
        tabs = extract_tables(kind, "diag" if kind == "Riemannian" else "-", True)
        d = tlc.fresh_dir(name)
        tlc.stage_specs(d, ["CacheTables.tla"])
        kn = [f"k{i + 1}" for i in range(len(keys))]
        mod = (src.replace('Objs == {"o1", "o2", "o3"}', 'Objs == {"o1", "o2"}')
               .replace('Keys == {"k1", "k2", "k3", "k4"}', "Keys == {" + ", ".join(f'"{k}"' for k in kn) + "}")
               .replace('Grps == {"g1", "g2", "g3", "g4"}', 'Grps == {"g1", "g2", "g3"}'))
        (d / "StateCacheInd.tla").write_text(mod)
        name_of = dict(zip(kn, keys))
        key_of = {v: k for k, v in name_of.items()}
        dep = {k: set(tabs["declared"][name_of[k]]) for k in kn}
        if break_dep:
            victim = next(k for k in kn if dep[k])
            dep[victim] = set()           # a method that declares no dependency at all
        aux = {k: {key_of[a] for a in tabs["aux"].get(name_of[k], []) if a in key_of and tabs["withaux"].get(name_of[k])} for k in kn}
        call = {k for k in kn if tabs["callable"][name_of[k]]}

        def fun(dct):
            return "[k \\in Keys |-> CASE " + " [] ".join(f'k = "{k}" -> {tlc.to_tla(v) if v else "{}"}' for k, v in dct.items()) + "]"

        (d / "MCStateCacheInd.tla").write_text(
            "---- MODULE MCStateCacheInd ----\nEXTENDS StateCacheInd, CacheTables, Sequences\n"
            f"Tab == Tables.{kind}\n"
            "NameOf == [k \\in Keys |-> CASE " + " [] ".join(f'k = "{k}" -> "{v}"' for k, v in name_of.items()) + "]\n"
            "RECURSIVE TD(_)\n"
            "TD(m) == Tab[m].reads \\cup UNION {TD(Tab[m].calls[i]) : i \\in 1..Len(Tab[m].calls)}\n"
            f"DepC == {fun(dep)}\nTrueDepC == [k \\in Keys |-> TD(NameOf[k])]\nAuxC == {fun(aux)}\nCallableC == {tlc.to_tla(call) if call else '{}'}\n"
            "SideConditions == /\\ \\A k \\in Keys : TrueDepC[k] \\subseteq DepC[k]\n"
            "                  /\\ \\A k \\in Keys : \\A a \\in AuxC[k] : TrueDepC[a] \\subseteq DepC[k]\n====\n")
        cfg = ("INIT Init\nNEXT Next\nCONSTANTS\n  Dep <- DepC\n  TrueDep <- TrueDepC\n  Aux <- AuxC\n  Callable <- CallableC\n"
               "INVARIANT IndInv\nCHECK_DEADLOCK FALSE\n")
        res = tlc.run_tlc(d, "MCStateCacheInd", cfg, workers=12, timeout=1500, cpus=12, heap="8g", dump_trace=False)
        return res, dep, name_of

    for kind in kinds:
        keys = UNBOUNDED_KEYS[kind][:nkeys]
        res, dep, name_of = run(kind, keys, False, f"c09_unbounded_{kind}")
        if not res.ok:
            if res.error_kind != "invariant":
                raise MachineryError(f"StateCacheInd.tla failed for the tables of {kind}: {res.stdout[-1200:]}")
            # the declared dependencies extracted from the code do not keep cached values fresh in the abstract
            # algorithm: reported as a drift here; the replayed histories (bounded engine, scripted families) decide
            # whether the real objects return stale values
            out.setdefault("drift", []).append(f"StateCacheInd.tla: {res.violated} fails for every-length histories with the dependency "
                                               f"tables extracted for {kind} {keys}: declared {dep}")
            continue
        out["unbounded_history_models"].append({"kind": kind, "methods": keys, "distinct_states": res.distinct, "depth": None})
        out["unbounded_history_states"] += res.distinct
    # vacuity guard: a table with a missing dependency must make Fresh fail
    res, dep, name_of = run(kinds[0], UNBOUNDED_KEYS[kinds[0]][:nkeys], True, "c09_unbounded_selftest")
    if res.ok or res.error_kind != "invariant":
        raise MachineryError("StateCacheInd.tla accepted a table with a missing dependency (vacuous model)")
    return out


def check_all(tier, seed, pid):
    """Runs every configuration; returns dict with coverage + violations (owner, sig, what, replay) + drifts."""
    import multiprocessing as mp

    small = {"quick": dict(nobj=2, nsys=1, maxsteps=3), "thorough": dict(nobj=2, nsys=1, maxsteps=4)}[tier]
    deep = {"quick": dict(nobj=2, nsys=1, maxsteps=4), "thorough": dict(nobj=2, nsys=1, maxsteps=5)}[tier]
    three = {"quick": None, "thorough": dict(nobj=3, nsys=1, maxsteps=4)}[tier]
    two_sys = {"quick": dict(nobj=2, nsys=2, maxsteps=3), "thorough": dict(nobj=2, nsys=2, maxsteps=4)}[tier]
    sim = {"quick": (12, 9), "thorough": (150, 14)}[tier]
    jobs = []
    for kind, flavours, wa in configurations(tier):
        jobs.append(("bfs", kind, flavours, wa, deep if kind == "Euclidean" and wa else small))
        jobs.append(("sim", kind, flavours, wa, dict(nobj=3, nsys=2, maxsteps=sim[1])))
        if wa and kind in ("Euclidean", "Gaussian", "SoftAbs", "Riemannian"):
            jobs.append(("bfs", kind, flavours, wa, two_sys))
        if three and not wa:
            jobs.append(("bfs", kind, flavours, wa, three))
    with mp.get_context("fork").Pool(14) as pool:
        outs = pool.map(_run_job, [(j, tier, seed, pid, sim[0]) for j in jobs], chunksize=1)
    total = {"states": 0, "transitions": 0, "histories": 0, "actions": 0, "calls": 0, "viol": [], "drift": [],
             "tlc_counterexamples": [], "samples": [], "configs": []}
    if pid == "C09":
        ub = unbounded_histories(tier)
        total["drift"] += ub.pop("drift", [])
        total.update(ub)
    av, an = alias_family()
    total["viol"] += [v for v in av if v[0] == pid]
    total["calls"] += an
    total["alias_family_calls"] = an
    if pid == "C18":
        rv, rn = repeat_call_family()
        total["viol"] += rv
        total["calls"] += rn
        total["repeat_call_family_calls"] = rn
    for o in outs:
        for k in ("states", "transitions", "histories", "actions", "calls"):
            total[k] += o[k]
        o["cfg"]["wall_s"] = o["wall"]
        total["configs"].append(o["cfg"])
        total["viol"] += o["viol"]
        total["drift"] += o["drift"]
        if o["cex"]:
            total["tlc_counterexamples"].append(o["cex"])
        if o["sample"] and len(total["samples"]) < 4:
            total["samples"].append(o["sample"])
    return total


def replay_case(rep):
    results = {"actions": 0, "calls": 0, "viol": [], "drift": []}
    hist = []
    # re-derive the spec's predictions is not needed for the decisive checks: mark predictions neutral
    for a in rep["history"]:
        b = dict(a)
        if b["op"] == "call":
            b.setdefault("evald", [])
            b.setdefault("shouldHit", False)
            b.setdefault("counted", [])
            b.setdefault("status", {})
        hist.append(b)
    replay_history(rep["kind"], rep["flavour"], rep["with_aux"], rep["nsys"], hist, set(), results,
                   assign_mode=rep.get("assign_mode", "parity"))
    return results["viol"]
