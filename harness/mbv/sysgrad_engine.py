"""Engine for specs/SysGrad.tla (C05): exact rational Hamiltonian components and derivatives of the system
classes on the model zoo's polynomial model functions, demanded from the real system objects."""

from __future__ import annotations

import math
from concurrent.futures import ThreadPoolExecutor

import numpy as np

from mbv import tlc, zoo
from mbv.tlc import MachineryError

CFG = """SPECIFICATION Spec
CONSTANT Cases <- CasesDef
INVARIANT MetricPosDef
INVARIANT GramPosDef
INVARIANT KineticEuler
INVARIANT Export
CHECK_DEADLOCK FALSE
"""

STATES = [
    {"q": ["1/2", "-1", "1"], "p": ["1", "-1/2", "2"]},
    {"q": ["-1", "1/2", "0"], "p": ["1/2", "1", "-1"]},
    {"q": ["1", "1", "-1/2"], "p": ["-2", "1/2", "1/2"]},
]
# states reached by ASSIGNING one variable of a state on which every method was already evaluated: (q of 1, p of 0)
# after `state.pos = ...` and (q of 0, p of 1) after `state.mom = ...`, both starting from STATES[0]
MIXED = {"pos": {"q": STATES[1]["q"], "p": STATES[0]["p"]}, "mom": {"q": STATES[0]["q"], "p": STATES[1]["p"]}}
STATES_ALL = STATES + [MIXED["pos"], MIXED["mom"]]


def cases(tier):
    out = []
    nst = 2 if tier == "quick" else 3
    for si in range(nst):
        for metric in ("identity", "diag", "dense"):
            out.append(dict(sys="Euclidean", metric=metric, curved=True, st=si))
            out.append(dict(sys="Gaussian", metric=metric, curved=True, st=si))
            out.append(dict(sys="Constrained", metric=metric, curved=True, st=si))
        out.append(dict(sys="Constrained", metric="dense", curved=False, st=si))
        out.append(dict(sys="ConstrainedHausdorff", metric="dense", curved=True, st=si))
        out.append(dict(sys="GaussianConstrained", metric="diag", curved=True, st=si))
        out.append(dict(sys="GaussianConstrained", metric="dense", curved=si % 2 == 0, st=si))
        for fl in zoo.RIEMANNIAN_FLAVOURS:
            out.append(dict(sys="Riemannian", metric=fl, curved=True, st=si))
        out.append(dict(sys="Riemannian", metric="cholneg", curved=True, st=si))
    # structured metric objects (their exact dense value is handed to the specification)
    for gi, gname in enumerate(GIVEN_METRICS if tier == "thorough" else GIVEN_METRICS[:6]):
        out.append(dict(sys=("Euclidean", "Gaussian", "Constrained")[gi % 3], metric="given", given=gname, curved=True, st=gi % 2))
    for si, var in ((len(STATES), "pos"), (len(STATES) + 1, "mom")):
        for sysname, metric in (("Euclidean", "dense"), ("Gaussian", "diag"), ("Gaussian", "identity"), ("Constrained", "dense"),
                                ("GaussianConstrained", "diag"), ("Riemannian", "diag"), ("Riemannian", "chol")):
            out.append(dict(sys=sysname, metric=metric, curved=True, st=si, assigned=var))
    return out


GIVEN_METRICS = ["tri-lower", "lowrank-", "block", "lowrank+*4(used)", "scaled", "product", "tri-upper", "lowrank+", "dense*4(used)",
                 "lowrank+/4(used)", "tri-lower-full", "block*4(used)"]


def _given(name):
    from mbv import matzoo
    return matzoo.pos_def_metrics(3)[name]


def _rat_tla(x):
    from fractions import Fraction
    f = Fraction(x)
    return f"<<{f.numerator}, {f.denominator}>>"


def _case_tla(c):
    st = STATES_ALL[c["st"]]
    extra = ""
    if c["metric"] == "given":
        from fractions import Fraction
        dense = _given(c["given"])[1]
        extra = ", marr |-> <<" + ", ".join("<<" + ", ".join(_rat_tla(Fraction(float(x))) for x in row) + ">>" for row in dense) + ">>, given |-> " + tlc.tla_str(c["given"])
    return ('[sys |-> %s, metric |-> %s, curved |-> %s, st |-> [q |-> <<%s>>, p |-> <<%s>>]%s]' % (
        tlc.tla_str(c["sys"]), tlc.tla_str(c["metric"]), tlc.to_tla(c["curved"]),
        ", ".join(_rat_tla(x) for x in st["q"]), ", ".join(_rat_tla(x) for x in st["p"]), extra))


def run_spec(cs, name, shards=14):
    shards = max(1, min(shards, len(cs)))
    parts = [cs[i::shards] for i in range(shards)]

    def one(a):
        idx, part = a
        d = tlc.fresh_dir(f"{name}_{idx}")
        tlc.stage_specs(d, ["SysGrad.tla", "ZooModel.tla"])
        (d / "MCSysGrad.tla").write_text("---- MODULE MCSysGrad ----\nEXTENDS SysGrad\nCasesDef == {\n "
                                         + ",\n ".join(_case_tla(c) for c in part) + "\n}\n====\n")
        return tlc.run_tlc(d, "MCSysGrad", CFG, workers=1, timeout=1700, cpus=1, heap="2g", stack="64m")

    with ThreadPoolExecutor(max_workers=shards) as ex:
        results = list(ex.map(one, enumerate(parts)))
    recs, gen, dist = [], 0, 0
    for r in results:
        if not r.ok:
            raise MachineryError(f"SysGrad.tla violates its own sanity invariants: {r.violated}\n{r.stdout[-1500:]}")
        gen += r.generated
        dist += r.distinct
        recs += [p for p in r.printed if isinstance(p, dict) and "dh1_dpos" in p]
    if len(recs) != len(cs):
        raise MachineryError(f"SysGrad export incomplete: {len(recs)} of {len(cs)} cases")
    return recs, {"generated": gen, "distinct": dist}


def _r(x):
    return x[0] / x[1]


def _vec(v):
    return np.array([_r(x) for x in v], dtype=float)


def check_against_real(recs):
    """Returns (violations [(owner, sig, what, replay)], number of values compared)."""
    from mici.states import ChainState

    viol, n = [], 0
    seen = set()
    for rec in recs:
        kind, metric, curved = rec["sys"], rec["metric"], rec["curved"]
        q, p = _vec(rec["q"]), _vec(rec["p"])
        want = {
            "h1": _r(rec["h1poly"]) + 0.5 * math.log(_r(rec["h1det"])), "h2": _r(rec["h2"]),
            "dh1_dpos": _vec(rec["dh1_dpos"]), "dh2_dpos": _vec(rec["dh2_dpos"]), "dh2_dmom": _vec(rec["dh2_dmom"]),
            "dh_dpos": _vec(rec["dh_dpos"]), "dh_dmom": _vec(rec["dh_dmom"]),
        }
        want["h"] = want["h1"] + want["h2"]
        for with_aux in (False, True):
            model = zoo.Model(3, with_aux=with_aux, curved=curved)
            # the transcription of the model functions in SysGrad.tla must be the zoo's functions
            if not np.allclose(model._g(q.copy()), _vec(rec["gradf"]), rtol=1e-12, atol=1e-12):
                raise MachineryError("SysGrad.tla's density differs from zoo.Model's")
            if rec["jac"] and not np.allclose(model._jac(q.copy()), np.array([[_r(x) for x in row] for row in rec["jac"]]), rtol=1e-12, atol=1e-12):
                raise MachineryError("SysGrad.tla's constraint differs from zoo.Model's")
            if metric == "given":
                import mici.systems as S_
                mobj = _given(rec["given"])[0]
                kw = dict(metric=mobj, grad_neg_log_dens=model.grad_neg_log_dens)
                if kind == "Euclidean":
                    system = S_.EuclideanMetricSystem(model.neg_log_dens, **kw)
                elif kind == "Gaussian":
                    system = S_.GaussianEuclideanMetricSystem(model.neg_log_dens, **kw)
                else:
                    system = S_.DenseConstrainedEuclideanMetricSystem(model.neg_log_dens, model.constr, dens_wrt_hausdorff=False,
                                                                      jacob_constr=model.jacob_constr, mhp_constr=model.mhp_constr, **kw)
            else:
                system = (zoo.make_system(kind, model, metric=metric) if kind != "Riemannian"
                          else zoo.make_system(kind, model, flavour=metric))
            cls = type(system).__name__
            tag = f"{kind}[{metric if metric != 'given' else rec['given']}{'' if curved else ',linear'}]" + (f"(after state.{rec['_assigned']} = ...)" if rec.get("_assigned") else "")
            assigned = rec.get("_assigned")
            shared = None
            if assigned:
                # ONE state object: every method evaluated at STATES[0], then one variable assigned
                from fractions import Fraction as _F
                q0 = np.array([float(_F(x)) for x in STATES[0]["q"]])
                p0 = np.array([float(_F(x)) for x in STATES[0]["p"]])
                shared = ChainState(pos=q0, mom=p0, dir=1)
                for meth in want:
                    if hasattr(system, meth):
                        getattr(system, meth)(shared)
                if assigned == "pos":
                    shared.pos = q.copy()
                else:
                    shared.mom = p.copy()
            for meth, w in want.items():
                rp = {"engine": "sysgrad", "case": {k: rec[k] for k in ("sys", "metric", "curved", "q", "p")}, "with_aux": with_aux}
                if not hasattr(system, meth):
                    continue
                # fresh state per method (no cache interplay), or the shared state after the assignment
                state = shared if shared is not None else ChainState(pos=q.copy(), mom=p.copy(), dir=1)
                try:
                    got = getattr(system, meth)(state)
                except Exception as e:  # noqa: BLE001
                    sig = f"C05:{tag}:{meth}:exception:{type(e).__name__}"
                    if sig not in seen:
                        seen.add(sig)
                        viol.append(("C05", sig, f"{cls} ({tag}, with_aux={with_aux}).{meth} raised {e!r} at q={q.tolist()}, p={p.tolist()}", rp))
                    continue
                n += int(np.size(w))
                g = np.asarray(got, dtype=float)
                scale = max(1.0, float(np.max(np.abs(w))))
                again_bad = False
                if shared is None and (g.shape == np.shape(w) and np.all(np.abs(g - w) <= 1e-9 * scale)):
                    # the same methods again on ONE state that has already answered every method once (a value handed
                    # out or cached earlier must not have been changed by a later evaluation)
                    try:
                        if "_twice" not in locals() or _twice[0] is not system:
                            _twice = (system, ChainState(pos=q.copy(), mom=p.copy(), dir=1))
                            for m2 in want:
                                if hasattr(system, m2):
                                    getattr(system, m2)(_twice[1])
                        g2 = np.asarray(getattr(system, meth)(_twice[1]), dtype=float)
                        if g2.shape != np.shape(w) or not np.all(np.abs(g2 - w) <= 1e-9 * scale):
                            g, again_bad = g2, True
                    except Exception:  # noqa: BLE001
                        pass
                if again_bad or g.shape != np.shape(w) or not np.all(np.abs(g - w) <= 1e-9 * scale):
                    sig = f"C05:{tag}:{meth}" + (":second-evaluation" if again_bad else "")
                    if sig not in seen:
                        seen.add(sig)
                        what = ("is not the documented Hamiltonian component" if meth in ("h", "h1", "h2") else
                                "is not the partial derivative of the documented Hamiltonian component")
                        viol.append(("C05", sig, f"{cls} ({tag}, user functions {'with' if with_aux else 'without'} auxiliary outputs).{meth} = "
                                     f"{np.round(g, 10).tolist()} {what}: exact value {np.round(np.asarray(w), 10).tolist()} "
                                     f"at q={q.tolist()}, p={p.tolist()}", rp))
    return viol, n


# ---- SoftAbs: the metric is not a rational function of the position; numerical five-point differences of system.h ----
def softabs_numeric():
    from mici.states import ChainState

    viol, n = [], 0
    for with_aux in (False, True):
        model = zoo.Model(3, with_aux=with_aux)
        system = zoo.make_system("SoftAbs", model)
        from fractions import Fraction
        # (third state: the Hessian I + diag(1.2 q^2) + 0.3 (e1 e2' + e2 e1') has a repeated eigenvalue at q = (1/2, 1/2, sqrt(1/2)))
        sts = [(np.array([float(Fraction(x)) for x in st["q"]]), np.array([float(Fraction(x)) for x in st["p"]])) for st in STATES[:2]]
        sts.append((np.array([0.5, 0.5, np.sqrt(0.5)]), np.array([1.0, -0.5, 2.0])))
        for q, p in sts:

            def comp(name, qq, pp):
                return float(getattr(system, name)(ChainState(pos=np.array(qq), mom=np.array(pp), dir=1)))

            def fd(name, wrt):
                e, out = 1e-3, np.zeros(3)
                for i in range(3):
                    d = np.zeros(3)
                    d[i] = e
                    f = (lambda s: comp(name, q + s * d, p)) if wrt == "q" else (lambda s: comp(name, q, p + s * d))
                    out[i] = (-f(2) + 8 * f(1) - 8 * f(-1) + f(-2)) / (12 * e)
                return out

            checks = {"dh1_dpos": fd("h1", "q"), "dh2_dpos": fd("h2", "q"), "dh2_dmom": fd("h2", "p"),
                      "dh_dpos": fd("h", "q"), "dh_dmom": fd("h", "p")}
            st_ = ChainState(pos=q.copy(), mom=p.copy(), dir=1)
            if abs(system.h(st_) - system.h1(st_) - system.h2(st_)) > 1e-12:
                viol.append(("C05", "C05:SoftAbs:h", "SoftAbs system: h is not h1 + h2", {"engine": "sysgrad-softabs"}))
            for meth, w in checks.items():
                g = np.asarray(getattr(system, meth)(ChainState(pos=q.copy(), mom=p.copy(), dir=1)), dtype=float)
                n += 3
                if not np.all(np.abs(g - w) <= 1e-7 * max(1.0, float(np.max(np.abs(w))))):
                    viol.append(("C05", f"C05:SoftAbs:{meth}", f"SoftAbs system (with_aux={with_aux}).{meth} = {np.round(g, 8).tolist()}, five-point "
                                 f"differences of the system's own Hamiltonian give {np.round(w, 8).tolist()}", {"engine": "sysgrad-softabs"}))
    return viol, n


def check_all(tier, name):
    cs = cases(tier)
    recs, stats = run_spec(cs, name)
    from fractions import Fraction as _F
    for r in recs:
        for var, stt in MIXED.items():
            if [_F(a, b) for a, b in r["q"]] == [_F(x) for x in stt["q"]] and [_F(a, b) for a, b in r["p"]] == [_F(x) for x in stt["p"]]:
                r["_assigned"] = var
    viol, n = check_against_real(recs)
    v2, n2 = softabs_numeric()
    seen, out = set(), []
    for v in viol + v2:
        if v[1] not in seen:
            seen.add(v[1])
            out.append(v)
    return {"viol": out, "stats": stats, "values": n, "softabs_values": n2, "cases": cs, "recs": recs}
