"""Thin, defensive wrapper around TLC / pcal: runs a model, parses statistics, printed
JSON values, invariant violations and (JSON) counterexample traces.

Every run happens in its own work directory under /verif/build (never /tmp), with
-metadir inside it and -noGenerateSpecTE, under an outer timeout.
"""

from __future__ import annotations

import json
import os
import re
import shutil
import subprocess
import time
from dataclasses import dataclass, field
from pathlib import Path

ROOT = Path(__file__).resolve().parents[2]
SPECS = ROOT / "specs"
# (VERIF_BUILD_DIR / VERIF_OUT_DIR: only for tools/ that evaluate patched scratch copies in parallel; the registered
#  commands never set them)
BUILD = Path(os.environ["VERIF_BUILD_DIR"]) if os.environ.get("VERIF_BUILD_DIR") else ROOT / "build"
JAR = "/opt/veriftools/tla/tla2tools.jar"
CP = f"{JAR}:/opt/veriftools/tla/CommunityModules-deps.jar"


class MachineryError(RuntimeError):
    """TLC / pcal / parsing failed: exit code 2, never a verdict about the property."""


@dataclass
class TlcResult:
    ok: bool  # finished without error (no invariant/property/assumption violation)
    stdout: str
    generated: int = 0
    distinct: int = 0
    depth: int = 0
    wall_s: float = 0.0
    violated: str | None = None  # name of violated invariant / property, if any
    error_kind: str | None = None
    printed: list = field(default_factory=list)  # decoded JSON objects printed by PrintT
    raw_printed: list = field(default_factory=list)
    trace: list | None = None  # counterexample (list of dict state) when dumped
    coverage: dict = field(default_factory=dict)  # action name -> (taken, distinct)
    workdir: Path | None = None


def fresh_dir(name: str) -> Path:
    d = BUILD / name
    if d.exists():
        shutil.rmtree(d)
    d.mkdir(parents=True)
    return d


def stage_specs(workdir: Path, modules: list[str]) -> None:
    """Copy the named spec modules (relative to specs/) and every lib module into workdir."""
    for lib in (SPECS / "lib").glob("*.tla"):
        shutil.copy(lib, workdir / lib.name)
    for m in modules:
        src = SPECS / m
        shutil.copy(src, workdir / src.name)


def pcal(workdir: Path, module_file: str) -> None:
    """Translate the PlusCal algorithm inside workdir/module_file in place."""
    p = subprocess.run(
        ["java", "-cp", CP, "pcal.trans", "-nocfg", module_file],
        cwd=workdir,
        capture_output=True,
        text=True,
        timeout=120,
    )
    if p.returncode != 0 or "Translation completed" not in p.stdout:
        raise MachineryError(f"pcal failed for {module_file}:\n{p.stdout}\n{p.stderr}")


_STATS = re.compile(r"(\d+) states generated, (\d+) distinct states found")
_DEPTH = re.compile(r"The depth of the complete state graph search is (\d+)")
_INV = re.compile(r"Error: Invariant (\S+) is violated")
_PROP = re.compile(r"Error: (Action|Temporal) propert(?:y|ies) (\S+)? ?.*violated")
_COV = re.compile(r"^<(\w+) line (\d+), col (\d+) to line (\d+), col (\d+) of module (\w+)>: (\d+):(\d+)")


def _decode_printed(line: str):
    """PrintT(ToJson(x)) prints a TLA+ string literal: decode to the JSON value."""
    s = line.strip()
    if len(s) >= 2 and s[0] == '"' and s[-1] == '"':
        try:
            inner = json.loads(s)
        except json.JSONDecodeError:
            # TLA+ string escapes are a subset of JSON's; fall back to manual unescape
            inner = s[1:-1].replace('\\"', '"').replace("\\\\", "\\")
        try:
            return json.loads(inner)
        except json.JSONDecodeError:
            return None
    return None


def run_tlc(
    workdir: Path,
    module: str,
    cfg: str,
    *,
    workers: int | str = 1,
    timeout: int = 600,
    env: dict | None = None,
    simulate: str | None = None,
    depth: int | None = None,
    seed: int | None = None,
    coverage: bool = False,
    deadlock: bool = True,
    dump_trace: bool = True,
    dfs_queue: bool = False,
    heap: str = "4g",
    cpus: int | None = None,
    cfg_name: str | None = None,
    extra: list[str] | None = None,
    stack: str | None = None,
) -> TlcResult:
    cfg_name = cfg_name or f"{module}.cfg"
    (workdir / cfg_name).write_text(cfg)
    meta = workdir / f"meta_{cfg_name}"
    if meta.exists():
        shutil.rmtree(meta)
    # SANY unpacks the standard modules into java.io.tmpdir on every run: keep that inside the work directory
    # (removed with it by fresh_dir) instead of piling up under /tmp
    jtmp = workdir / f"jtmp_{cfg_name}"
    shutil.rmtree(jtmp, ignore_errors=True)
    jtmp.mkdir(parents=True, exist_ok=True)
    java = ["java", "-XX:+UseParallelGC", f"-Xmx{heap}", f"-Djava.io.tmpdir={jtmp}", "-cp", CP]
    if stack:
        java.append(f"-Xss{stack}")     # deeply nested (non-tail) recursive operators
    if cpus:
        java.append(f"-XX:ActiveProcessorCount={cpus}")
    if dfs_queue:
        java.append("-Dtlc2.tool.queue.IStateQueue=StateDeque")
    cmd = java + ["tlc2.TLC", "-config", cfg_name, "-workers", str(workers),
                  "-metadir", str(meta), "-noGenerateSpecTE"]
    trace_file = workdir / f"trace_{cfg_name}.json"
    if trace_file.exists():
        trace_file.unlink()
    if dump_trace:
        cmd += ["-dumpTrace", "json", str(trace_file)]
    if not deadlock:
        cmd += ["-deadlock"]
    if simulate is not None:
        cmd += ["-simulate", simulate]
    if depth is not None:
        cmd += ["-depth", str(depth)]
    if seed is not None:
        cmd += ["-seed", str(seed)]
    if coverage:
        cmd += ["-coverage", "1"]
    if extra:
        cmd += extra
    cmd.append(module)
    full_env = dict(os.environ)
    full_env.pop("JAVA_TOOL_OPTIONS", None)
    if env:
        full_env.update({k: str(v) for k, v in env.items()})
    t0 = time.time()
    try:
        p = subprocess.run(cmd, cwd=workdir, capture_output=True, text=True,
                           timeout=timeout, env=full_env)
    except subprocess.TimeoutExpired as e:
        subprocess.run(["pkill", "-f", f"metadir {meta}"], check=False)
        raise MachineryError(f"TLC timed out after {timeout}s in {workdir} ({module})") from e
    finally:
        shutil.rmtree(meta, ignore_errors=True)
        shutil.rmtree(jtmp, ignore_errors=True)
    out = p.stdout
    res = TlcResult(ok=False, stdout=out, wall_s=time.time() - t0, workdir=workdir)
    for m in _STATS.finditer(out):
        res.generated, res.distinct = int(m.group(1)), int(m.group(2))
    m = _DEPTH.search(out)
    if m:
        res.depth = int(m.group(1))
    for line in out.splitlines():
        v = _decode_printed(line)
        if v is not None:
            res.printed.append(v)
        mc = _COV.match(line)
        if mc:
            res.coverage[mc.group(1)] = (int(mc.group(7)), int(mc.group(8)))
    m = _INV.search(out)
    if m:
        res.violated, res.error_kind = m.group(1), "invariant"
    elif "Error: Action property" in out or "Error: Temporal properties were violated" in out:
        res.error_kind = "property"
        m2 = re.search(r"Error: Action property (\S+)", out)
        res.violated = m2.group(1) if m2 else "temporal"
    elif "Error: Deadlock reached" in out:
        res.error_kind, res.violated = "deadlock", "Deadlock"
    elif "Assumption" in out and "is false" in out:
        res.error_kind, res.violated = "assumption", "ASSUME"
    elif re.search(r"Error: Postcondition .* is false", out):
        res.error_kind, res.violated = "postcondition", "POSTCONDITION"
    finished = "Model checking completed. No error has been found." in out or (
        simulate is not None and "Error:" not in out
    )
    if res.error_kind is None and not finished:
        if "Error:" in out or p.returncode != 0:
            raise MachineryError(
                f"TLC failed (rc={p.returncode}) in {workdir} for {module}:\n"
                + "\n".join(out.splitlines()[-40:]) + "\n" + p.stderr[-2000:]
            )
    res.ok = res.error_kind is None
    if trace_file.exists():
        try:
            data = json.loads(trace_file.read_text())
            cx = data.get("counterexample", data)
            res.trace = [st[1] if isinstance(st, list) and len(st) == 2 else st for st in cx.get("state", [])]
        except Exception:  # noqa: BLE001
            res.trace = None
    return res


def tla_str(s: str) -> str:
    return '"' + s.replace("\\", "\\\\").replace('"', '\\"') + '"'


def to_tla(v) -> str:
    """Python value -> TLA+ expression (ints, bools, strings, lists=sequences, dict=record,
    frozenset/set = set, tuple = sequence)."""
    if isinstance(v, bool):
        return "TRUE" if v else "FALSE"
    if isinstance(v, int):
        return str(v) if v >= 0 else f"(-{-v})"
    if isinstance(v, str):
        return tla_str(v)
    if isinstance(v, (list, tuple)):
        return "<<" + ", ".join(to_tla(x) for x in v) + ">>"
    if isinstance(v, (set, frozenset)):
        return "{" + ", ".join(to_tla(x) for x in sorted(v, key=repr)) + "}"
    if isinstance(v, dict):
        if not v:
            raise ValueError("empty record")
        return "[" + ", ".join(f"{k} |-> {to_tla(x)}" for k, x in v.items()) + "]"
    raise TypeError(f"cannot render {v!r} as TLA+")


def sany(workdir: Path, module: str) -> None:
    p = subprocess.run(["java", "-cp", CP, "tla2sany.SANY", f"{module}.tla"], cwd=workdir,
                       capture_output=True, text=True, timeout=120)
    if "Semantic errors" in p.stdout or "***Parse Error***" in p.stdout or p.returncode != 0:
        raise MachineryError(f"SANY rejected {module}:\n{p.stdout[-3000:]}")
