"""Engine for specs/Transitions.tla (C01, trajectory part of C12).

spec side : TLC enumerates every behaviour of the four transitions on batched abstract
            orbits, checks the structural invariants in every state and exact stationarity /
            mass conservation in a POSTCONDITION (registers, residues mod four primes), and
            prints one JSON record per terminal state (draw history, steps, statistics).
code side : the *unmodified* mici transition classes are run on a mock System/Integrator
            over the same orbit under an exploring generator that enumerates every outcome
            of every internal random draw together with its exact probability.
binding   : (1) exact stationarity / statistics identities are decided on the implementation
            kernel with Fractions, (2) the implementation's behaviours are compared one by
            one with the spec's behaviours (same draws, thresholds, steps, statistics),
            (3) a sample of implementation behaviours is validated as traces by TLC.
"""

from __future__ import annotations

import json
import math
import random
import shutil
from concurrent.futures import ThreadPoolExecutor
from fractions import Fraction
from pathlib import Path

import numpy as np

from mbv import tlc
from mbv.tlc import MachineryError

KERNELS = ("static", "random", "multinomial", "slice")
STEP_SIZE = 0.25

CFG_TEXT = """SPECIFICATION Spec
CONSTANT defaultInitValue = 0
INVARIANT TypeOK
INVARIANT TreeShape
INVARIANT SubTreeShape
INVARIANT StatsExact
INVARIANT Contained
INVARIANT Accumulate
POSTCONDITION Stationary
CHECK_DEADLOCK FALSE
"""


# --------------------------------------------------------------------------------------
# configurations
# --------------------------------------------------------------------------------------
def make_cfg(kernel, W, Q, P, brk, nan=None, *, maxdepth=2, crit="riem", extra=True, K=0,
             nstep=1, lo=1, hi=3):
    n = len(W)
    nan = list(nan) if nan is not None else [False] * n
    assert len(Q) == n and len(P) == n and len(brk) == n + 1 and brk[0] and brk[n]
    expect = not (kernel == "multinomial" and K != 0)
    return {
        "kernel": kernel, "N": n, "W": list(W), "Q": list(Q), "P": list(P), "brk": list(brk),
        "nan": nan, "maxdepth": maxdepth, "crit": crit, "extra": bool(extra), "K": K,
        "nstep": nstep, "lo": lo, "hi": hi, "expectStationary": expect,
    }


def random_orbit(rng: random.Random, n, wmax, *, zeros=False, interior_break=False, nan=False):
    lo = 0 if zeros else 1
    W = [rng.randint(lo, wmax) for _ in range(n)]
    if all(w == 0 for w in W):
        W[rng.randrange(n)] = 1
    Q = [rng.randint(-3, 3) for _ in range(n)]
    if rng.random() < 0.5:  # monotone positions make U-turns depend on momenta only
        Q = sorted(Q)
    P = [rng.choice([-2, -1, 1, 2, 0]) for _ in range(n)]
    brk = [rng.choice([1, 2])] + [0] * (n - 1) + [rng.choice([1, 2])]
    if interior_break and n > 2:
        brk[rng.randrange(1, n)] = rng.choice([1, 2])
    nanv = [False] * n
    if nan:
        j = rng.randrange(n)
        nanv[j] = True
        if all(nanv[i] or W[i] == 0 for i in range(n)):
            nanv[j] = False
    return W, Q, P, brk, nanv


def kernel_variants(rng: random.Random, kernel, tier, faults):
    """Parameter settings of one kernel to pair with an orbit."""
    out = []
    if kernel == "static":
        out = [dict(nstep=k) for k in (1, 2, 3)]
    elif kernel == "random":
        out = [dict(lo=1, hi=3), dict(lo=1, hi=4), dict(lo=2, hi=4)]
    else:
        depths = (1, 2, 3)
        ks = (0,) if kernel == "multinomial" and not faults else (0, 1, 2)
        for d in depths:
            for crit in ("euclid", "riem"):
                for extra in (True, False):
                    if d < 2 and not extra:
                        continue  # extra checks only matter for depth >= 2
                    for K in ks:
                        out.append(dict(maxdepth=d, crit=crit, extra=extra, K=K))
    return out


def gen_configs(tier: str, seed: int, *, faults: bool) -> list[dict]:
    """Deterministic family of (orbit, kernel, settings) configurations.

    faults=False : C01 family (weights >= 0, errors at orbit ends / interior breaks)
    faults=True  : C12 family (adds NaN energies, zero weights, interior errors, and the
                   multinomial divergence threshold)
    """
    rng = random.Random(1000003 * seed + (17 if faults else 5))
    cfgs = []
    n_orb = {"quick": 10, "thorough": 60}[tier]
    nmax = {"quick": 6, "thorough": 8}[tier]
    wmax = {"quick": 3, "thorough": 4}[tier]
    orbits = []
    # a few hand-picked orbits that are always present
    orbits.append(([1, 2, 3, 2, 1], [0, 1, 2, 3, 4], [1, 1, 1, -1, 1], [1, 0, 0, 0, 0, 2], [False] * 5))
    orbits.append(([2, 1, 3], [0, 1, 0], [1, -1, 1], [2, 0, 0, 1], [False] * 3))
    orbits.append(([3, 0, 2, 1], [-1, 0, 1, 2], [1, 2, 1, 1], [1, 0, 0, 0, 1], [False] * 4))
    for _ in range(n_orb):
        n = rng.randint(2, nmax)
        orbits.append(random_orbit(rng, n, wmax, zeros=rng.random() < 0.4,
                                   interior_break=rng.random() < (0.6 if faults else 0.25),
                                   nan=faults and rng.random() < 0.6))
    # long orbits: the third doubling (8 states) fits, so that decisions taken on 4-state trees
    # (extra sub-tree checks, top-level criterion) change which states are reachable
    n_long = {"quick": 4, "thorough": 16}[tier]
    for _ in range(n_long):
        n = rng.randint(9, 11)
        W, Q, P, brk, nanv = random_orbit(rng, n, 2, zeros=False, interior_break=False, nan=False)
        P = [rng.choice([-2, -1, 1, 2]) for _ in range(n)]
        for kernel in ("multinomial", "slice"):
            for crit in ("riem", "euclid"):
                cfgs.append(make_cfg(kernel, W, Q, P, brk, nanv, maxdepth=3, crit=crit, extra=True, K=0))
                if tier == "thorough":
                    cfgs.append(make_cfg(kernel, W, Q, P, brk, nanv, maxdepth=3, crit=crit, extra=False, K=0))
    # designed long orbits on which the no-U-turn decisions taken on 4-state trees are NOT symmetric in the two
    # sub-trees (ballistic motion, its mirror image, a slow U-turn, momenta whose sub-tree sums change sign): the
    # random orbits above usually stop at the first doubling, so the order in which the sub-trees are handed to the
    # criterion (left/right versus old/new) never mattered on them
    designed = [
        ([1, 2, 1, 1, 2, 1, 1, 2, 1, 1], list(range(10)), [1] * 10),
        ([2, 1, 1, 2, 1, 1, 2, 1, 1, 2], list(range(9, -1, -1)), [-1] * 10),
        ([1, 1, 2, 1, 1, 1, 2, 1, 1, 1], [0, 4, 7, 9, 10, 10, 9, 7, 4, 0], [4, 3, 2, 1, 1, -1, -2, -3, -4, -5]),
        ([1, 2, 1, 1, 1, 2, 1, 1, 1, 2], [0, 2, 4, 3, 2, 4, 6, 5, 4, 6], [2, 2, -1, -1, 2, 2, -1, -1, 2, 2]),
    ]
    for W, Q, P in (designed if tier != "quick" else designed[:3]):
        n = len(W)
        brk = [1] + [0] * (n - 1) + [2]
        for kernel, crit in (("multinomial", "euclid"), ("slice", "riem"), ("multinomial", "riem"), ("slice", "euclid")):
            if tier == "quick" and (kernel, crit) in (("multinomial", "riem"), ("slice", "euclid")) and W is not designed[2][0]:
                continue
            cfgs.append(make_cfg(kernel, W, Q, P, brk, [False] * n, maxdepth=3, crit=crit, extra=True, K=0))
    for (W, Q, P, brk, nanv) in orbits:
        for kernel in KERNELS:
            variants = kernel_variants(rng, kernel, tier, faults)
            if tier == "quick" and len(variants) > 6:
                # always keep the deepest full-featured settings, sample the rest
                keep = [v for v in variants if v.get("maxdepth") == 3 and v.get("extra")]
                rest = [v for v in variants if v not in keep]
                variants = keep[:4] + rng.sample(rest, 4)
            for v in variants:
                cfgs.append(make_cfg(kernel, W, Q, P, brk, nanv, **v))
    return cfgs


def exhaustive_small_configs() -> list[dict]:
    """All weight vectors over {1,2,3} for N <= 3 (4 for one kernel setting): tiny orbits
    enumerated completely."""
    cfgs = []
    import itertools

    for n in (2, 3):
        for W in itertools.product((1, 2, 3), repeat=n):
            Q = list(range(n))
            P = [1] * n
            brk = [1] + [0] * (n - 1) + [2]
            cfgs.append(make_cfg("multinomial", W, Q, P, brk, maxdepth=2, crit="riem", extra=True))
            cfgs.append(make_cfg("slice", W, Q, P, brk, maxdepth=2, crit="euclid", extra=True, K=2))
            cfgs.append(make_cfg("static", W, Q, P, brk, nstep=1))
            cfgs.append(make_cfg("random", W, Q, P, brk, lo=1, hi=3))
    return cfgs


def consts_module(cfgs: list[dict], triples=None) -> str:
    """TransConsts.tla: the batched configurations and the set of initial (cfg, start, dir)."""
    recs = ",\n ".join(tlc.to_tla(c) for c in cfgs)
    if triples is None:
        use_all, explicit = "TRUE", "{}"
    else:
        use_all = "FALSE"
        explicit = "{" + ", ".join(tlc.to_tla(list(t)) for t in sorted(set(triples))) + "}"
    return ("---- MODULE TransConsts ----\nEXTENDS Integers, Sequences\n"
            f"Cfgs == <<\n {recs}\n>>\nCfgSet == 1..Len(Cfgs)\n"
            f"UseAllTriples == {use_all}\nExplicitTriples == {explicit}\n====\n")


# --------------------------------------------------------------------------------------
# spec side
# --------------------------------------------------------------------------------------
_TRANSLATED: dict[str, Path] = {}


def translated_spec(tag: str = "Transitions") -> Path:
    """pcal-translate specs/Transitions.tla once per process; returns the translated file."""
    if tag not in _TRANSLATED:
        d = tlc.fresh_dir("trans_pcal")
        tlc.stage_specs(d, ["Transitions.tla"])
        tlc.pcal(d, "Transitions.tla")
        _TRANSLATED[tag] = d / "Transitions.tla"
    return _TRANSLATED[tag]


def run_spec_shard(idx: int, cfgs: list[dict], name: str, timeout: int):
    d = tlc.fresh_dir(f"{name}_shard{idx}")
    shutil.copy(translated_spec(), d / "Transitions.tla")
    for lib in (tlc.SPECS / "lib").glob("*.tla"):
        shutil.copy(lib, d / lib.name)
    (d / "TransConsts.tla").write_text(consts_module(cfgs))
    res = tlc.run_tlc(d, "Transitions", CFG_TEXT, workers=1, timeout=timeout, dump_trace=False, cpus=2, heap="2g",
                      coverage=True)
    return res


def run_spec(cfgs: list[dict], name: str, shards: int = 14, timeout: int = 1500):
    """Returns (terminal records keyed by global cfg index, stats, list of failures)."""
    translated_spec()
    n = len(cfgs)
    shards = max(1, min(shards, n))
    parts = [list(range(i, n, shards)) for i in range(shards)]
    with ThreadPoolExecutor(max_workers=shards) as ex:
        results = list(ex.map(lambda a: run_spec_shard(a[0], [cfgs[i] for i in a[1]], name, timeout),
                              enumerate(parts)))
    recs, failures = [], []
    generated = distinct = 0
    cover = {}
    for part, res in zip(parts, results):
        generated += res.generated
        distinct += res.distinct
        for a, (dst, gn) in res.coverage.items():
            cover[a] = cover.get(a, 0) + gn
        for r in res.printed:
            if "nonstationary" in r:
                for local in r["nonstationary"]:
                    failures.append(("Stationary", part[local - 1]))
                continue
            if "c" not in r:
                continue
            r["c"] = part[r["c"] - 1]
            recs.append(r)
        if not res.ok and res.error_kind != "postcondition":
            failures.append((res.violated or res.error_kind, None, res.stdout[-3000:]))
        if res.error_kind == "postcondition" and not any(f[0] == "Stationary" for f in failures):
            failures.append(("Stationary", None))
    never = sorted(a for a, n_ in cover.items() if n_ == 0)
    if never and n > 50:
        raise MachineryError(f"vacuity: labels of Transitions.tla never executed in this configuration family: {never}")
    return recs, {"generated": generated, "distinct": distinct, "action_coverage": cover}, failures


def spec_kernel(recs: list[dict]):
    """behaviours keyed by (c, start, sdir, draws) from TLC's printed terminal states."""
    out = {}
    for r in recs:
        draws = tuple((Fraction(d[1], d[2]) if d[0] in ("sub", "top", "metro", "dir") else (d[0], d[1], d[2]),
                       bool(d[3])) for d in r["draws"])
        prob = Fraction(1)
        for d in r["draws"]:
            if d[0] in ("level", "nstep"):
                prob *= Fraction(1, d[2])
            else:
                p = Fraction(d[1], d[2])
                prob *= p if d[3] else 1 - p
        key = (r["c"], r["start"], r["sdir"], draws)
        out[key] = {
            "end": r["endIdx"], "endDir": r["endDir"], "prob": prob,
            "steps": [tuple(s) for s in r["steps"]], "nstep": r["nstep"],
            "sumacc": r["sumacc"], "tdepth": r["tdepth"],
            "rej": Fraction(r["rejnum"], r["rejden"]) if r["rejden"] else None,
            "fDiv": r["fDiv"], "fConv": r["fConv"], "fNonRev": r["fNonRev"], "lvl": r["lvl"],
        }
    return out


# --------------------------------------------------------------------------------------
# code side: mock system / integrator over the orbit, exploring generator
# --------------------------------------------------------------------------------------
class OrbitSystem:
    """Only what the integration transitions touch: h(state) and dh_dmom(state)."""

    def __init__(self, cfg):
        self.cfg = cfg

    def h(self, state):
        i = int(state.idx)
        if self.cfg["nan"][i - 1]:
            return np.nan
        w = self.cfg["W"][i - 1]
        return np.inf if w == 0 else -math.log(w)

    def dh_dmom(self, state):
        return np.asarray(state.mom)  # identity metric


class OrbitIntegrator:
    def __init__(self, cfg, log):
        self.cfg, self.log, self.step_size = cfg, log, STEP_SIZE

    def step(self, state):
        from mici.errors import ConvergenceError, NonReversibleStepError

        i, d = int(state.idx), int(state.dir)
        assert d in (1, -1)
        kind = self.cfg["brk"][i] if d == 1 else self.cfg["brk"][i - 1]
        self.log.append((i, d, kind))
        if kind == 1:
            raise ConvergenceError("scripted")
        if kind == 2:
            raise NonReversibleStepError("scripted")
        new = state.copy()
        new.idx = i + d
        new.pos = np.array([float(self.cfg["Q"][i + d - 1])])
        new.mom = np.array([float(self.cfg["P"][i + d - 1])])
        return new


class _Forced(Exception):
    pass


class ExploringRng:
    """Stands in for numpy.random.Generator inside Transition.sample.

    Every draw consults `script` (a list of option indices); decisions beyond the script take
    option 0.  `trail` records, per decision point, (n_options, chosen) so the caller can
    enumerate all scripts depth-first; `draws` records (kind, Fraction threshold, outcome).
    """

    def __init__(self, script, cfg, start, maxden):
        self.script, self.cfg, self.start, self.maxden = script, cfg, start, maxden
        self.trail, self.draws, self.prob = [], [], Fraction(1)
        self.problems = []

    def _choose(self, n):
        k = len(self.trail)
        choice = self.script[k] if k < len(self.script) else 0
        self.trail.append((n, choice))
        return choice

    def uniform(self, *a, **k):
        return _U(self)

    def integers(self, lo, hi=None, *a, **k):
        if hi is None:
            lo, hi = 0, lo
        opts = list(range(int(lo), int(hi)))
        ch = self._choose(len(opts))
        self.prob *= Fraction(1, len(opts))
        self.draws.append((("nstep", opts[ch], len(opts)), True))
        return opts[ch]

    def bernoulli(self, p):
        """outcome of `uniform() < p`."""
        from mici.utils import LogRepFloat

        if isinstance(p, LogRepFloat):
            pf = p.val
        else:
            pf = float(p)
        if math.isnan(pf) or pf <= 0.0:
            self.draws.append((Fraction(0), False))
            return False
        if pf >= 1.0:
            self.draws.append((Fraction(1), True))
            return True
        fr = Fraction(pf).limit_denominator(self.maxden)
        if abs(float(fr) - pf) > 1e-9:
            self.problems.append(f"threshold {pf!r} is not a small rational (nearest {fr})")
        if fr >= 1 or fr <= 0:  # within 1e-9 of a sure event: forced outcome
            self.draws.append((Fraction(1 if fr >= 1 else 0), fr >= 1))
            return fr >= 1
        ch = self._choose(2)
        out = ch == 0  # option 0 = True
        self.prob *= fr if out else 1 - fr
        self.draws.append((fr, out))
        return out


class _U:
    """A uniform(0,1) variate that has not been looked at yet."""

    def __init__(self, rng):
        self.rng = rng

    def __lt__(self, p):
        return self.rng.bernoulli(p)

    def __le__(self, p):
        return self.rng.bernoulli(p)

    def __gt__(self, p):  # u > p  <=>  not (u < p) almost surely
        return not self.rng.bernoulli(p)

    def __ge__(self, p):
        return not self.rng.bernoulli(p)

    def log(self):
        """np.log(u) as used for the slice variable: choose the level l, u*W_start in (l-1, l)."""
        r = self.rng
        ws = r.cfg["W"][r.start - 1]
        ch = r._choose(ws)
        lvl = ch + 1
        r.prob *= Fraction(1, ws)
        r.draws.append((("level", lvl, ws), True))
        r.lvl = lvl
        return math.log((lvl - 0.5) / ws)

    def __float__(self):
        raise _Forced("transition converted a uniform draw to float: exploring generator cannot follow")


def make_transition(cfg, log):
    import mici.transitions as T

    system, integ = OrbitSystem(cfg), OrbitIntegrator(cfg, log)
    k = cfg["kernel"]
    if k == "static":
        return T.MetropolisStaticIntegrationTransition(system, integ, n_step=cfg["nstep"])
    if k == "random":
        return T.MetropolisRandomIntegrationTransition(system, integ, n_step_range=(cfg["lo"], cfg["hi"]))
    crit = T.euclidean_no_u_turn_criterion if cfg["crit"] == "euclid" else T.riemannian_no_u_turn_criterion
    mdh = math.inf if cfg["K"] == 0 else math.log(cfg["K"]) + 1e-9
    cls = T.MultinomialDynamicIntegrationTransition if k == "multinomial" else T.SliceDynamicIntegrationTransition
    return cls(system, integ, max_tree_depth=cfg["maxdepth"], max_delta_h=mdh,
               termination_criterion=crit, do_extra_subtree_checks=cfg["extra"])


def run_impl_once(cfg, start, sdir, script):
    from mici.states import ChainState

    log = []
    trans = make_transition(cfg, log)
    maxden = max(2, sum(cfg["W"]) * 2, cfg["N"] * 2)
    rng = ExploringRng(script, cfg, start, maxden)
    rng.lvl = 0
    state = ChainState(pos=np.array([float(cfg["Q"][start - 1])]),
                       mom=np.array([float(cfg["P"][start - 1])]), dir=sdir, idx=start)
    exc = None
    try:
        new_state, stats = trans.sample(state, rng)
    except BaseException as e:  # noqa: BLE001  (an escaping exception is itself an observation)
        if isinstance(e, (KeyboardInterrupt, SystemExit)):
            raise
        exc, new_state, stats = e, None, {}
    beh = {
        "draws": tuple(rng.draws), "prob": rng.prob, "steps": list(log), "trail": rng.trail,
        "problems": rng.problems, "exc": repr(exc) if exc is not None else None, "lvl": rng.lvl,
    }
    if exc is None:
        beh.update({
            "end": int(new_state.idx), "endDir": int(new_state.dir),
            "pos_ok": float(new_state.pos[0]) == float(cfg["Q"][int(new_state.idx) - 1])
            and float(new_state.mom[0]) == float(cfg["P"][int(new_state.idx) - 1]),
            "stats": {k: (v.item() if hasattr(v, "item") else v) for k, v in stats.items()},
        })
    return beh


def explore_impl(cfg, start, sdir, limit=200000):
    """All behaviours of the real transition from (start, sdir): DFS over draw scripts."""
    out, script = [], []
    while True:
        beh = run_impl_once(cfg, start, sdir, script)
        out.append(beh)
        if len(out) > limit:
            raise MachineryError("implementation has too many behaviours to enumerate")
        trail = beh["trail"]
        # next script in DFS order
        k = len(trail) - 1
        while k >= 0 and trail[k][1] >= trail[k][0] - 1:
            k -= 1
        if k < 0:
            return out
        script = [t[1] for t in trail[:k]] + [trail[k][1] + 1]


def starts_of(cfg):
    dyn = cfg["kernel"] in ("multinomial", "slice")
    for z in range(1, cfg["N"] + 1):
        if cfg["W"][z - 1] > 0 and not cfg["nan"][z - 1]:
            for d in ((1,) if dyn else (1, -1)):
                yield z, d


def effw(cfg, x):
    return 0 if cfg["nan"][x - 1] else cfg["W"][x - 1]


def check_impl_config(ci, cfg, pid):
    """Run the real transition for every start of one configuration; returns
    (behaviour dict keyed like spec_kernel, list of property violations (signature, what, replay))."""
    dyn = cfg["kernel"] in ("multinomial", "slice")
    beh_map, viol = {}, []
    inflow = {}
    base_replay = {"engine": "transitions", "cfg": cfg}
    for start, sdir in starts_of(cfg):
        behs = explore_impl(cfg, start, sdir)
        tot = Fraction(0)
        ws = cfg["W"][start - 1]
        for b in behs:
            rp = dict(base_replay, start=start, sdir=sdir, script=[t[1] for t in b["trail"]])
            if b["exc"] is not None:
                viol.append(("C12", f"{pid}:transition:{cfg['kernel']}:exception-escapes",
                             f"{cfg['kernel']} transition let {b['exc']} escape from sample()", rp))
                continue
            for pr in b["problems"]:
                viol.append(("C01", f"C01:transition:{cfg['kernel']}:irrational-threshold", pr, rp))
            tot += b["prob"]
            key = (ci, start, sdir, b["draws"])
            beh_map[key] = b
            ek = (b["end"], b["endDir"] if not dyn else 1)
            inflow[ek] = inflow.get(ek, Fraction(0)) + ws * b["prob"]
            st = b["stats"]
            ok_steps = [s for s in b["steps"] if s[2] == 0]
            visited = [s[0] + s[1] for s in ok_steps]
            flags = bool(st.get("diverging", False) or st["convergence_error"] or st["non_reversible_step"])
            # --- C01 statistics claims ------------------------------------------------
            if st["n_step"] != len(ok_steps):
                viol.append(("C01", f"C01:stats:{cfg['kernel']}:n_step",
                             f"n_step={st['n_step']} but {len(ok_steps)} integrator steps were taken", rp))
            if dyn:
                exp_acc = 0.0 if (flags or not visited) else float(
                    sum(Fraction(min(ws, effw(cfg, x)), ws) for x in visited) / len(visited))
            else:
                fin = visited[-1] if visited else None
                err = len(ok_steps) != len(b["steps"])
                exp_acc = 0.0 if (err or fin is None) else float(Fraction(min(ws, effw(cfg, fin)), ws))
            if not (abs(st["accept_stat"] - exp_acc) <= 1e-12):
                viol.append(("C01", f"C01:stats:{cfg['kernel']}:accept_stat",
                             f"accept_stat={st['accept_stat']} but mean Metropolis acceptance of visited states is {exp_acc}", rp))
            # --- C12 containment ------------------------------------------------------
            kinds = {s[2] for s in b["steps"]}
            if not (effw(cfg, b["end"]) > 0 and (b["end"] == start or b["end"] in visited) and b["pos_ok"]):
                viol.append(("C12", f"C12:transition:{cfg['kernel']}:returned-state",
                             f"returned state {b['end']} is not the start or a finite-energy visited state", rp))
            if st["convergence_error"] != (1 in kinds) or st["non_reversible_step"] != (2 in kinds):
                viol.append(("C12", f"C12:transition:{cfg['kernel']}:error-flags",
                             f"flags conv={st['convergence_error']} nonrev={st['non_reversible_step']} but step errors met: {sorted(kinds - {0})}", rp))
            if flags and st["accept_stat"] != 0.0:
                viol.append(("C12", f"C12:transition:{cfg['kernel']}:accept_stat-after-fault",
                             "fault recorded but accept_stat is not 0", rp))
        if tot != 1:
            viol.append(("C01", f"C01:kernel:{cfg['kernel']}:mass",
                         f"probabilities of all behaviours from start {start} sum to {tot}, not 1",
                         dict(base_replay, start=start, sdir=sdir)))
    if cfg["expectStationary"]:
        for z in range(1, cfg["N"] + 1):
            for d in ((1,) if dyn else (1, -1)):
                got = inflow.get((z, d), Fraction(0))
                if got != effw(cfg, z):
                    viol.append(("C01", f"C01:kernel:{cfg['kernel']}:stationarity",
                                 f"{cfg['kernel']} kernel not stationary: target mass flowing into state {z} (dir {d}) is {got}, target weight is {effw(cfg, z)}",
                                 dict(base_replay, end=z, endDir=d)))
                    break
    return beh_map, viol


def compare_spec_impl(cfgs, spec_map, impl_map):
    """Behaviour-by-behaviour comparison; returns list of drift descriptions."""
    drifts = []
    sk, ik = set(spec_map), set(impl_map)
    for key in sorted(sk - ik, key=repr)[:20]:
        drifts.append(f"spec behaviour not produced by the implementation: cfg {key[0]} ({cfgs[key[0]]['kernel']}) start {key[1]} draws {_fmt_draws(key[3])}")
    for key in sorted(ik - sk, key=repr)[:20]:
        drifts.append(f"implementation behaviour not allowed by the spec: cfg {key[0]} ({cfgs[key[0]]['kernel']}) start {key[1]} draws {_fmt_draws(key[3])}")
    for key in sk & ik:
        s, b = spec_map[key], impl_map[key]
        cfg = cfgs[key[0]]
        dyn = cfg["kernel"] in ("multinomial", "slice")
        st = b["stats"]
        diffs = []
        if s["end"] != b["end"]:
            diffs.append(f"end {s['end']} vs {b['end']}")
        if not dyn and s["endDir"] != b["endDir"]:
            diffs.append(f"endDir {s['endDir']} vs {b['endDir']}")
        if s["steps"] != [tuple(x) for x in b["steps"]]:
            diffs.append("integrator step sequence differs")
        if s["nstep"] != st["n_step"]:
            diffs.append(f"n_step {s['nstep']} vs {st['n_step']}")
        if s["prob"] != b["prob"]:
            diffs.append(f"probability {s['prob']} vs {b['prob']}")
        if dyn:
            if s["tdepth"] != st["tree_depth"]:
                diffs.append(f"tree_depth {s['tdepth']} vs {st['tree_depth']}")
            if s["fDiv"] != st["diverging"]:
                diffs.append(f"diverging {s['fDiv']} vs {st['diverging']}")
            if s["rej"] is not None and abs(float(s["rej"]) - st["reject_prob"]) > 1e-12:
                diffs.append(f"reject_prob {s['rej']} vs {st['reject_prob']}")
            ws = cfg["W"][key[1] - 1]
            av = float(Fraction(s["sumacc"], ws) / s["nstep"]) if s["nstep"] else 0.0
            if abs(av - st["av_metrop_accept_prob"]) > 1e-12:
                diffs.append(f"av_metrop_accept_prob {av} vs {st['av_metrop_accept_prob']}")
        else:
            ws = cfg["W"][key[1] - 1]
            if abs(float(Fraction(s["sumacc"], ws)) - st["accept_stat"]) > 1e-12:
                diffs.append(f"accept_stat {Fraction(s['sumacc'], ws)} vs {st['accept_stat']}")
        if s["fConv"] != st["convergence_error"] or s["fNonRev"] != st["non_reversible_step"]:
            diffs.append("error flags differ")
        if st["step_size"] != STEP_SIZE:
            diffs.append(f"step_size stat {st['step_size']}")
        if diffs:
            drifts.append(f"cfg {key[0]} ({cfg['kernel']}) start {key[1]} draws {_fmt_draws(key[3])}: " + "; ".join(diffs))
    return drifts


def _fmt_draws(draws):
    out = []
    for d, o in draws:
        out.append(f"{d}:{'T' if o else 'F'}" if isinstance(d, Fraction) else f"{d[0]}={d[1]}/{d[2]}")
    return "[" + " ".join(out) + "]"


def replay_case(rep: dict):
    """Re-execute a replay record against the current tree (no TLC); returns violations."""
    cfg = rep["cfg"]
    _, viol = check_impl_config(0, cfg, "replay")
    return viol


# --------------------------------------------------------------------------------------
# code -> spec: trace validation of recorded implementation behaviours by TLC
# --------------------------------------------------------------------------------------
TRACE_CFG = """SPECIFICATION TraceSpec
CONSTANT defaultInitValue = 0
INVARIANT TypeOK
INVARIANT TreeShape
INVARIANT SubTreeShape
INVARIANT StatsExact
INVARIANT Contained
INVARIANT Progress
POSTCONDITION AllAccepted
CHECK_DEADLOCK FALSE
"""


def trace_record(local_c, key, b):
    draws = []
    for d, o in key[3]:
        if isinstance(d, Fraction):
            draws.append(["bern", d.numerator, d.denominator, bool(o)])
        else:
            draws.append([d[0], d[1], d[2], True])
    st = b["stats"]
    return {
        "c": local_c, "start": key[1], "sdir": key[2], "draws": draws,
        "steps": [list(s) for s in b["steps"]], "end": b["end"], "endDir": b["endDir"],
        "nstep": int(st["n_step"]), "tdepth": int(st.get("tree_depth", 0)),
        "fDiv": bool(st.get("diverging", False)), "fConv": bool(st["convergence_error"]),
        "fNonRev": bool(st["non_reversible_step"]),
    }


def validate_trace_records(cfgs_local, records, name, timeout=900):
    """Run Trace_Transitions over ndjson `records`; returns list of (index, matched_events)."""
    d = tlc.fresh_dir(name)
    shutil.copy(translated_spec(), d / "Transitions.tla")
    shutil.copy(tlc.SPECS / "Trace_Transitions.tla", d / "Trace_Transitions.tla")
    (d / "TransConsts.tla").write_text(
        consts_module(cfgs_local, [(r["c"], r["start"], r["sdir"]) for r in records]))
    tf = d / "traces.ndjson"
    tf.write_text("".join(json.dumps(r) + "\n" for r in records))
    (d / "TraceData.tla").write_text(
        "---- MODULE TraceData ----\nEXTENDS Integers\nTraces == <<\n " + ",\n ".join(tlc.to_tla(r) for r in records) + "\n>>\n====\n")
    res = tlc.run_tlc(d, "Trace_Transitions", TRACE_CFG, workers=1, timeout=timeout, dump_trace=False)
    rejected = []
    for r in res.printed:
        if "rejected" in r:
            rejected += [tuple(x) for x in r["rejected"]]
    if not res.ok and res.error_kind != "postcondition":
        # an invariant of the spec failed while following an implementation trace
        rejected.append((-1, f"invariant {res.violated} violated while following a trace"))
    if res.error_kind == "postcondition" and not rejected:
        raise MachineryError("trace postcondition failed without a rejected list:\n" + res.stdout[-2000:])
    return rejected, res


def validate_traces(cfgs, impl_map, name, seed, max_traces=400):
    keys = sorted(impl_map, key=repr)
    rnd = random.Random(seed + 77)
    if len(keys) > max_traces:
        keys = rnd.sample(keys, max_traces)
    used = sorted({k[0] for k in keys})
    local = {g: i + 1 for i, g in enumerate(used)}
    records = [trace_record(local[k[0]], k, impl_map[k]) for k in keys]
    if not records:
        return {"validated": 0, "rejected": []}
    rejected, res = validate_trace_records([cfgs[g] for g in used], records, name)
    # self-test: a corrupted trace must be rejected (the trace spec really constrains)
    bad = json.loads(json.dumps(records[0]))
    bad["end"] = bad["end"] % cfgs[used[local[keys[0][0]] - 1]]["N"] + 1
    rej2, _ = validate_trace_records([cfgs[g] for g in used], [bad], name + "_selftest")
    if not rej2:
        raise MachineryError("self-test failed: Trace_Transitions accepted a corrupted trace")
    msgs = []
    for (t, m) in rejected:
        if t == -1:
            msgs.append(str(m))
        else:
            k = keys[t - 1]
            msgs.append(f"cfg {k[0]} ({cfgs[k[0]]['kernel']}) start {k[1]} draws {_fmt_draws(k[3])}: matched {m} of {len(records[t-1]['draws']) + len(records[t-1]['steps'])} events")
    return {"validated": len(records) - len(rejected), "rejected": msgs,
            "trace_states": res.distinct}
