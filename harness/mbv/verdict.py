"""Verdict policy: VIOLATION / KNOWN-FINDING / SPEC-DRIFT, replay files, evidence files."""

from __future__ import annotations

import hashlib
import os
import json
import time
from dataclasses import dataclass, field
from pathlib import Path

ROOT = Path(__file__).resolve().parents[2]


@dataclass
class Violation:
    property_id: str
    signature: str  # structural signature used for known-finding matching
    what: str  # one line, human readable
    replay: dict  # everything needed to re-execute against the code without TLC


@dataclass
class Outcome:
    property_id: str
    level: str = "model_checking"
    coverage: dict = field(default_factory=dict)
    assumptions: list = field(default_factory=list)
    violations: list = field(default_factory=list)
    drifts: list = field(default_factory=list)  # SPEC-DRIFT notes (never an alarm)
    notes: list = field(default_factory=list)

    def violate(self, signature: str, what: str, replay: dict) -> None:
        self.violations.append(Violation(self.property_id, signature, what, replay))

    def drift(self, what: str) -> None:
        if len(self.drifts) < 50:
            self.drifts.append(what)


def load_known() -> list[dict]:
    p = ROOT / "known_findings.json"
    if not p.exists():
        return []
    return json.loads(p.read_text()).get("findings", [])


def _jsonable(o):
    import fractions

    try:
        import numpy as np
    except ImportError:  # pragma: no cover
        np = None
    if isinstance(o, fractions.Fraction):
        return [o.numerator, o.denominator]
    if np is not None:
        if isinstance(o, np.ndarray):
            return o.tolist()
        if isinstance(o, np.generic):
            return o.item()
    if isinstance(o, (set, frozenset)):
        return sorted(o, key=repr)
    if isinstance(o, tuple):
        return list(o)
    if isinstance(o, Path):
        return str(o)
    return repr(o)


def finish(out: Outcome, tier: str, seed: int, t0: float) -> int:
    """Print verdict lines, write replay + evidence files, return the exit code."""
    known = [k for k in load_known() if k.get("property") == out.property_id]
    open_sigs = {k["signature"]: k for k in known if k.get("status") == "open"}
    new, seen_known = [], {}
    for v in out.violations:
        if v.signature in open_sigs:
            seen_known.setdefault(v.signature, v)
        else:
            new.append(v)
    for sig, v in seen_known.items():
        print(f"KNOWN-FINDING: property={out.property_id} {sig} -- {open_sigs[sig].get('what', v.what)}")
    rdir = (Path(os.environ["VERIF_OUT_DIR"]) if os.environ.get("VERIF_OUT_DIR") else ROOT) / "replays"
    rdir.mkdir(parents=True, exist_ok=True)
    reported = set()
    for v in new:
        if v.signature in reported:
            continue
        reported.add(v.signature)
        h = hashlib.sha1((v.signature + json.dumps(v.replay, sort_keys=True, default=_jsonable)).encode()).hexdigest()[:10]
        path = rdir / f"{out.property_id}-{h}.json"
        path.write_text(json.dumps(
            {"property": out.property_id, "signature": v.signature, "what": v.what, "replay": v.replay},
            indent=1, default=_jsonable))
        print(f"VIOLATION property={out.property_id} replay={path}")
        print(f"  what: {v.what}")
        print(f"  signature: {v.signature}")
    for d in out.drifts[:10]:
        print(f"SPEC-DRIFT: property={out.property_id} {d}")
    cov = dict(out.coverage)
    cov.setdefault("spec_drift", len(out.drifts))
    cov.setdefault("known_findings_seen", sorted(seen_known))
    if out.drifts:
        cov.setdefault("spec_drift_samples", out.drifts[:5])
    if out.notes:
        cov.setdefault("notes", out.notes)
    ev = {
        "property_id": out.property_id,
        "tier": tier,
        "seed": int(seed),
        "level": out.level,
        "coverage": cov,
        "assumptions": out.assumptions,
        "wall_s": round(time.time() - t0, 2),
        "violations": len(reported),
    }
    edir = (Path(os.environ["VERIF_OUT_DIR"]) if os.environ.get("VERIF_OUT_DIR") else ROOT) / "evidence"
    edir.mkdir(parents=True, exist_ok=True)
    (edir / f"{out.property_id}.json").write_text(json.dumps(ev, indent=1, default=_jsonable) + "\n")
    if reported:
        return 1
    print(f"OK property={out.property_id} tier={tier} seed={seed} "
          f"wall={ev['wall_s']}s known={len(seen_known)} drift={len(out.drifts)}")
    return 0
