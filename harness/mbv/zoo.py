"""Model zoo: small smooth model functions with hand-written derivatives for every mici
system class, with call counters, optional auxiliary-tuple return convention and optional
fault injection.  Used by the StateCache / Integrators / Solvers / Momentum / chain engines.
"""

from __future__ import annotations

from collections import Counter

import numpy as np


class Model:
    """User model functions over R^n (n = 2 or 3).

    with_aux : derivative functions return the documented tuples (derivative, ..., value)
    fault    : optional callable (name, call_index) -> None | "nan" | "inf" | "-inf" | Exception instance
    """

    def __init__(self, n=3, *, with_aux=False, fault=None, shift=0.0, curved=True, const_jac=False, alias_grad=False):
        self.n, self.with_aux, self.fault, self.shift, self.curved = n, with_aux, fault, shift, curved
        # const_jac: a linear constraint's Jacobian function returns the SAME array object on every call
        # (natural for `lambda q: A`), so identity of the returned object says nothing about the state
        self.const_jac = const_jac and not curved
        self._const_jac_array = None
        # alias_grad: the density is a standard normal and its gradient function returns its ARGUMENT (the
        # position array object itself) -- the most natural way to write it, and legal
        self.alias_grad = alias_grad
        self.calls = Counter()
        self.k = 1 if n == 2 else 2  # number of constraints

    # ---- bookkeeping -------------------------------------------------------------
    def _enter(self, name):
        self.calls[name] += 1
        if self.fault is not None:
            f = self.fault(name, sum(self.calls.values()))
            if isinstance(f, BaseException):
                raise f
            return f
        return None

    @staticmethod
    def _poison(val, f):
        if f is None:
            return val
        bad = {"nan": np.nan, "inf": np.inf, "-inf": -np.inf}[f]
        if np.isscalar(val) or np.ndim(val) == 0:
            return bad
        out = np.array(val, dtype=float)
        out.flat[0] = bad
        return out

    # ---- density -----------------------------------------------------------------
    def _f(self, q):
        if self.alias_grad:
            return 0.5 * q @ q + self.shift
        return 0.5 * q @ q + 0.1 * np.sum(q**4) + 0.3 * q[0] * q[1] + self.shift

    def _g(self, q):
        if self.alias_grad:
            return q
        g = q + 0.4 * q**3
        g[0] += 0.3 * q[1]
        g[1] += 0.3 * q[0]
        return g

    def _hess(self, q):
        if self.alias_grad:
            return np.eye(self.n)
        h = np.eye(self.n) + np.diag(1.2 * q**2)
        h[0, 1] += 0.3
        h[1, 0] += 0.3
        return h

    def neg_log_dens(self, q):
        f = self._enter("neg_log_dens")
        return self._poison(self._f(q), f)

    def grad_neg_log_dens(self, q):
        f = self._enter("grad_neg_log_dens")
        g = self._poison(self._g(q), f)
        return (g, self._f(q)) if self.with_aux else g

    def hess_neg_log_dens(self, q):
        f = self._enter("hess_neg_log_dens")
        h = self._poison(self._hess(q), f)
        return (h, self._g(q), self._f(q)) if self.with_aux else h

    def mtp_neg_log_dens(self, q):
        f = self._enter("mtp_neg_log_dens")
        q = np.array(q)

        def mtp(m):
            if self.alias_grad:
                return self._poison(np.zeros(self.n), f)
            return self._poison(2.4 * q * np.diag(m), f)

        return (mtp, self._hess(q), self._g(q), self._f(q)) if self.with_aux else mtp

    # ---- constraints ---------------------------------------------------------------
    def _c(self, q):
        if self.curved == "wavy":      # a curve with several nearby branches: q1 = sin(3 q0)
            c = [q[1] - np.sin(3.0 * q[0])]
            if self.k == 2:
                c.append(q[2] - 0.3 * q[0] ** 2)
            return np.array(c)
        if not self.curved:
            c = [q[0] + 0.5 * q[1] - 0.2]
            if self.k == 2:
                c.append(q[2] - 0.3 * q[0] + 0.1)
            return np.array(c)
        c = [q @ q - 1.0]
        if self.k == 2:
            c.append(q[2] - 0.3 * q[0] ** 2)
        return np.array(c)

    def _jac(self, q):
        j = np.zeros((self.k, self.n))
        if self.curved == "wavy":
            j[0, 0], j[0, 1] = -3.0 * np.cos(3.0 * q[0]), 1.0
            if self.k == 2:
                j[1, 0], j[1, 2] = -0.6 * q[0], 1.0
            return j
        if not self.curved:
            j[0, 0], j[0, 1] = 1.0, 0.5
            if self.k == 2:
                j[1, 2], j[1, 0] = 1.0, -0.3
            return j
        j[0] = 2 * q
        if self.k == 2:
            j[1, 0] = -0.6 * q[0]
            j[1, 2] = 1.0
        return j

    def constr(self, q):
        f = self._enter("constr")
        return self._poison(self._c(q), f)

    def jacob_constr(self, q):
        f = self._enter("jacob_constr")
        if self.const_jac and f is None:
            if self._const_jac_array is None:
                self._const_jac_array = self._jac(q)
            return (self._const_jac_array, self._c(q)) if self.with_aux else self._const_jac_array
        j = self._poison(self._jac(q), f)
        return (j, self._c(q)) if self.with_aux else j

    def mhp_constr(self, q):
        f = self._enter("mhp_constr")
        k, curved = self.k, self.curved

        q = np.array(q)

        def mhp(m):
            return self._poison(mhp_(m), f)

        def mhp_(m):
            if curved == "wavy":
                out = np.zeros(m.shape[1])
                out[0] = 9.0 * np.sin(3.0 * q[0]) * m[0, 0]
                if k == 2:
                    out[0] += -0.6 * m[1, 0]
                return out
            if not curved:
                return np.zeros(m.shape[1])
            out = 2.0 * m[0, :].copy()
            if k == 2:
                out[0] += -0.6 * m[1, 0]
            return out

        return (mhp, self._jac(q), self._c(q)) if self.with_aux else mhp

    # ---- metrics ---------------------------------------------------------------------
    def metric_scalar(self, q):
        f = self._enter("metric_func")
        return self._poison(1.0 + 0.5 * q @ q, f)

    def vjp_metric_scalar(self, q):
        f = self._enter("vjp_metric_func")
        q = np.array(q)

        def vjp(v):
            return self._poison(v * q, f)

        return (vjp, 1.0 + 0.5 * q @ q) if self.with_aux else vjp

    def metric_diag(self, q):
        f = self._enter("metric_func")
        return self._poison(1.0 + q**2, f)

    def vjp_metric_diag(self, q):
        f = self._enter("vjp_metric_func")
        q = np.array(q)

        def vjp(v):
            return self._poison(2.0 * q * v, f)

        return (vjp, 1.0 + q**2) if self.with_aux else vjp

    def _chol(self, q):
        L = np.diag(1.0 + 0.5 * q**2)
        L[1, 0] = 0.3 * q[0]
        return L

    def metric_chol(self, q):
        f = self._enter("metric_func")
        return self._poison(self._chol(q), f)

    def vjp_metric_chol(self, q):
        f = self._enter("vjp_metric_func")
        q = np.array(q)

        def vjp(v):
            out = np.diag(v) * q
            out[0] += 0.3 * v[1, 0]
            return self._poison(out, f)

        return (vjp, self._chol(q)) if self.with_aux else vjp

    # a Cholesky factor with NEGATIVE diagonal entries (legal: L L^T is the same positive definite matrix)
    def metric_chol_neg(self, q):
        f = self._enter("metric_func")
        return self._poison(-self._chol(q), f)

    def vjp_metric_chol_neg(self, q):
        self._enter("vjp_metric_func")
        q = np.array(q)

        def vjp(v):
            out = np.diag(v) * q
            out[0] += 0.3 * v[1, 0]
            return -out

        return (vjp, -self._chol(q)) if self.with_aux else vjp

    def _dense(self, q):
        return np.diag(1.0 + q**2) + 0.2 * np.ones((self.n, self.n))

    def metric_dense(self, q):
        f = self._enter("metric_func")
        return self._poison(self._dense(q), f)

    def vjp_metric_dense(self, q):
        f = self._enter("vjp_metric_func")
        q = np.array(q)

        def vjp(v):
            return self._poison(2.0 * q * np.diag(v), f)

        return (vjp, self._dense(q)) if self.with_aux else vjp


def const_metric(n, kind="dense"):
    import mici.matrices as M

    if kind == "identity":
        return None
    if kind == "diag":
        return np.array([1.5, 0.7, 2.0][:n])
    base = np.array([[2.0, 0.3, 0.1], [0.3, 1.0, -0.2], [0.1, -0.2, 1.5]])[:n, :n]
    if kind == "dense":
        return base
    if kind == "scaled":
        return M.PositiveScaledIdentityMatrix(1.7, n)
    raise ValueError(kind)


SYSTEM_KINDS = ("Euclidean", "Gaussian", "Constrained", "ConstrainedHausdorff", "Riemannian", "SoftAbs")
RIEMANNIAN_FLAVOURS = ("scalar", "diag", "chol", "dense")


def make_system(kind, model: Model, *, metric="dense", flavour="diag"):
    """Instantiate a real mici system of the given kind on top of `model`."""
    import mici.systems as S

    n = model.n
    if kind == "Euclidean":
        return S.EuclideanMetricSystem(model.neg_log_dens, metric=const_metric(n, metric),
                                       grad_neg_log_dens=model.grad_neg_log_dens)
    if kind == "Gaussian":
        return S.GaussianEuclideanMetricSystem(model.neg_log_dens, metric=const_metric(n, metric),
                                               grad_neg_log_dens=model.grad_neg_log_dens)
    if kind in ("Constrained", "ConstrainedHausdorff"):
        return S.DenseConstrainedEuclideanMetricSystem(
            model.neg_log_dens, model.constr, metric=const_metric(n, metric),
            dens_wrt_hausdorff=(kind == "ConstrainedHausdorff"),
            grad_neg_log_dens=model.grad_neg_log_dens, jacob_constr=model.jacob_constr,
            mhp_constr=model.mhp_constr)
    if kind == "GaussianConstrained":
        return S.GaussianDenseConstrainedEuclideanMetricSystem(
            model.neg_log_dens, model.constr, metric=const_metric(n, metric),
            grad_neg_log_dens=model.grad_neg_log_dens, jacob_constr=model.jacob_constr,
            mhp_constr=model.mhp_constr)
    if kind == "Riemannian":
        if flavour == "scalar":
            return S.ScalarRiemannianMetricSystem(model.neg_log_dens, model.metric_scalar,
                                                  vjp_metric_scalar_func=model.vjp_metric_scalar,
                                                  grad_neg_log_dens=model.grad_neg_log_dens)
        if flavour == "diag":
            return S.DiagonalRiemannianMetricSystem(model.neg_log_dens, model.metric_diag,
                                                    vjp_metric_diagonal_func=model.vjp_metric_diag,
                                                    grad_neg_log_dens=model.grad_neg_log_dens)
        if flavour == "chol":
            return S.CholeskyFactoredRiemannianMetricSystem(model.neg_log_dens, model.metric_chol,
                                                            vjp_metric_chol_func=model.vjp_metric_chol,
                                                            grad_neg_log_dens=model.grad_neg_log_dens)
        if flavour == "cholneg":
            return S.CholeskyFactoredRiemannianMetricSystem(model.neg_log_dens, model.metric_chol_neg,
                                                            vjp_metric_chol_func=model.vjp_metric_chol_neg,
                                                            grad_neg_log_dens=model.grad_neg_log_dens)
        if flavour == "dense":
            return S.DenseRiemannianMetricSystem(model.neg_log_dens, model.metric_dense,
                                                 vjp_metric_func=model.vjp_metric_dense,
                                                 grad_neg_log_dens=model.grad_neg_log_dens)
    if kind == "SoftAbs":
        return S.SoftAbsRiemannianMetricSystem(model.neg_log_dens, grad_neg_log_dens=model.grad_neg_log_dens,
                                               hess_neg_log_dens=model.hess_neg_log_dens,
                                               mtp_neg_log_dens=model.mtp_neg_log_dens, softabs_coeff=1.5)
    raise ValueError((kind, flavour))


def on_manifold_point(model: Model, seed=0):
    """A position on the constraint manifold of `model` (Newton from a seeded start)."""
    rng = np.random.default_rng(seed)
    q = rng.standard_normal(model.n) * 0.5 + 0.5
    for _ in range(100):
        c, j = model._c(q), model._jac(q)
        if np.max(np.abs(c)) < 1e-14:
            break
        q = q - j.T @ np.linalg.solve(j @ j.T, c)
    return q
