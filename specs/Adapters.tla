------------------------------- MODULE Adapters -------------------------------
(***************************************************************************)
(* The adapters of mici/adapters.py for arbitrary histories (C17).         *)
(*                                                                          *)
(* Mode "moments": OnlineVariance/CovarianceMetricAdapter.  Positions are   *)
(*   small integer points in the plane, handed one at a time to one of up   *)
(*   to three chains.  The adapter state of every chain follows Welford's   *)
(*   recursion, finalisation merges the chains pairwise (Chan et al. /      *)
(*   Schubert-Gertz) -- all in EXACT rational arithmetic.  Invariant: the   *)
(*   merged estimate equals the batch sample covariance of ALL positions,   *)
(*   whatever the split and order; fewer than two positions is an error.    *)
(* Mode "dual": DualAveragingStepSizeAdapter with iter_decay_coeff = 1.     *)
(*   log step sizes are linear forms over {1, mu, sqrt2, sqrt3, sqrt5} with *)
(*   rational coefficients (mu = log_step_size_reg_target).                 *)
(* Mode "search": the initial step-size search as a machine over the class  *)
(*   of each probe's energy change (<= log 2, > log 2, NaN, integrator      *)
(*   error).                                                                 *)
(***************************************************************************)
EXTENDS Integers, Sequences, FiniteSets, TLC, Json, Rat

CONSTANTS Mode, Points, MaxLen, NChain, Stats, MaxProbes

\* ===================== moments ==================================================
Zero2 == <<R(0), R(0)>>
ZeroM == <<R(0), R(0), R(0)>>            \* symmetric 2x2: xx, xy, yy
EmptyAd == [n |-> 0, mean |-> Zero2, m2 |-> ZeroM]

\* Welford update with point p = <<x, y>> (integers)
Welford(a, p) ==
  LET n == a.n + 1
      dx == RSub(R(p[1]), a.mean[1])
      dy == RSub(R(p[2]), a.mean[2])
      mx == RAdd(a.mean[1], RDiv(dx, R(n)))
      my == RAdd(a.mean[2], RDiv(dy, R(n)))
      ex == RSub(R(p[1]), mx)
      ey == RSub(R(p[2]), my)
  IN [n |-> n, mean |-> <<mx, my>>,
      m2 |-> <<RAdd(a.m2[1], RMul(dx, ex)), RAdd(a.m2[2], RMul(dx, ey)), RAdd(a.m2[3], RMul(dy, ey))>>]

\* pairwise merge of (n, mean, m2) statistics
Merge(a, b) ==
  IF b.n = 0 THEN a ELSE IF a.n = 0 THEN b ELSE
  LET n == a.n + b.n
      dx == RSub(a.mean[1], b.mean[1])
      dy == RSub(a.mean[2], b.mean[2])
      w == RDiv(R(a.n * b.n), R(n))
      mx == RDiv(RAdd(RMul(R(a.n), a.mean[1]), RMul(R(b.n), b.mean[1])), R(n))
      my == RDiv(RAdd(RMul(R(a.n), a.mean[2]), RMul(R(b.n), b.mean[2])), R(n))
  IN [n |-> n, mean |-> <<mx, my>>,
      m2 |-> <<RAdd(RAdd(a.m2[1], b.m2[1]), RMul(RMul(dx, dx), w)),
               RAdd(RAdd(a.m2[2], b.m2[2]), RMul(RMul(dx, dy), w)),
               RAdd(RAdd(a.m2[3], b.m2[3]), RMul(RMul(dy, dy), w))>>]

RECURSIVE MergeAll(_, _)
MergeAll(ads, i) == IF i = 0 THEN EmptyAd ELSE Merge(MergeAll(ads, i - 1), ads[i])

\* batch statistics of a sequence of points
RECURSIVE SumC(_, _)
SumC(ps, k) == IF ps = <<>> THEN 0 ELSE Head(ps)[k] + SumC(Tail(ps), k)
RECURSIVE SumCC(_, _, _)
SumCC(ps, k, l) == IF ps = <<>> THEN 0 ELSE Head(ps)[k] * Head(ps)[l] + SumCC(Tail(ps), k, l)
\* sum of (x_k - mean_k)(x_l - mean_l) = S_kl - S_k S_l / n
BatchM2(ps, k, l) == RSub(R(SumCC(ps, k, l)), RDiv(R(SumC(ps, k) * SumC(ps, l)), R(Len(ps))))

\* ===================== dual averaging (kappa = 1) ================================
\* linear form over <<1, mu, sqrt2, sqrt3, sqrt5>>
LF0 == <<R(0), R(0), R(0), R(0), R(0)>>
LFAdd(a, b) == [i \in 1..5 |-> RAdd(a[i], b[i])]
LFScale(a, r) == [i \in 1..5 |-> RMul(a[i], r)]
\* sqrt(t) for t in 1..5 as a linear form
SqrtLF(t) == CASE t = 1 -> <<R(1), R(0), R(0), R(0), R(0)>>
               [] t = 2 -> <<R(0), R(0), R(1), R(0), R(0)>>
               [] t = 3 -> <<R(0), R(0), R(0), R(1), R(0)>>
               [] t = 4 -> <<R(2), R(0), R(0), R(0), R(0)>>
               [] t = 5 -> <<R(0), R(0), R(0), R(0), R(1)>>
MuLF == <<R(0), R(1), R(0), R(0), R(0)>>
Target == <<4, 5>>       \* adapt_stat_target = 0.8
Gamma == <<1, 20>>       \* log_step_size_reg_coefficient = 0.05
T0 == 10                 \* iter_offset
DA0 == [iter |-> 0, err |-> R(0), smoothed |-> LF0, logstep |-> MuLF]

DAUpdate(a, stat) ==
  LET t == a.iter + 1
      w == <<1, T0 + t>>
      err == RAdd(RMul(a.err, RSub(R(1), w)), RMul(w, RSub(Target, stat)))
      ls == LFAdd(MuLF, LFScale(SqrtLF(t), RNeg(RDiv(err, Gamma))))
      sw == <<1, t>>                       \* (1 / iter) ** 1
      sm == LFAdd(LFScale(a.smoothed, RSub(R(1), sw)), LFScale(ls, sw))
  IN [iter |-> t, err |-> err, smoothed |-> sm, logstep |-> ls]

\* ===================== state ========================================================
VARIABLES hist,     \* history of events
          ads,      \* moments: per-chain adapter state; dual: per-chain dual averaging state
          pts,      \* moments: all points seen, in order
          probe     \* search machine state

vars == <<hist, ads, pts, probe>>

Search0 == [s |-> 0, exp |-> 0, tooBig |-> FALSE, set |-> FALSE, out |-> "running", last |-> "none"]

Init ==
  /\ hist = <<>> /\ pts = <<>>
  /\ ads = IF Mode = "moments" THEN [c \in 1..NChain |-> EmptyAd] ELSE [c \in 1..NChain |-> DA0]
  /\ probe = Search0

MomentsStep ==
  /\ Mode = "moments" /\ Len(hist) < MaxLen
  /\ \E c \in 1..NChain, p \in Points :
       /\ ads' = [ads EXCEPT ![c] = Welford(@, p)]
       /\ pts' = Append(pts, p)
       /\ hist' = Append(hist, <<c, p[1], p[2]>>)
  /\ UNCHANGED probe

DualStep ==
  /\ Mode = "dual" /\ Len(hist) < MaxLen
  /\ \E c \in 1..NChain, s \in Stats :
       /\ ads[c].iter < 5
       /\ ads' = [ads EXCEPT ![c] = DAUpdate(@, s)]
       /\ hist' = Append(hist, <<c, s[1], s[2]>>)
  /\ UNCHANGED <<pts, probe>>

\* one probe of the initial step-size search; tok is the class of |h_init - h(step(init))|
SearchStep ==
  /\ Mode = "search" /\ probe.out = "running"
  /\ IF probe.s = MaxProbes
     THEN probe' = [probe EXCEPT !.out = "AdaptationError"] /\ UNCHANGED hist
     ELSE \E tok \in {"le", "gt", "nan", "err"} :
       /\ hist' = Append(hist, tok)
       /\ IF tok = "err"
          THEN \* IntegratorError: treated as too big, halve
               probe' = [probe EXCEPT !.s = @ + 1, !.exp = @ - 1, !.tooBig = TRUE, !.set = TRUE, !.last = tok]
          ELSE LET big == IF probe.s = 0 \/ tok = "nan" THEN (tok # "le") ELSE probe.tooBig
               IN IF (big /\ tok = "le") \/ (~big /\ tok = "gt")
                  THEN probe' = [probe EXCEPT !.out = "return", !.tooBig = big, !.last = tok]
                  ELSE probe' = [probe EXCEPT !.s = @ + 1, !.exp = IF big THEN @ - 1 ELSE @ + 1,
                                              !.tooBig = big, !.set = TRUE, !.last = tok]
  /\ UNCHANGED <<ads, pts>>

Next == MomentsStep \/ DualStep \/ SearchStep
Spec == Init /\ [][Next]_vars

-----------------------------------------------------------------------------
\* C17: whatever the split among chains and the order, the merged online statistics are the
\* batch statistics of all positions seen
Merged == MergeAll(ads, NChain)
OnlineEqualsBatch ==
  (Mode = "moments" /\ Len(pts) >= 1) =>
     /\ Merged.n = Len(pts)
     /\ Merged.m2[1] = BatchM2(pts, 1, 1)
     /\ Merged.m2[2] = BatchM2(pts, 1, 2)
     /\ Merged.m2[3] = BatchM2(pts, 2, 2)
     /\ Merged.mean[1] = RDiv(R(SumC(pts, 1)), R(Len(pts)))

\* the sample variance is non-negative and the regularised estimate strictly positive
VarianceNonNegative == Mode = "moments" => ~RLt(Merged.m2[1], R(0)) /\ ~RLt(Merged.m2[3], R(0))

\* C17: the search returns a step size at which the energy change crosses log 2: the returning
\* probe lies on the other side of the threshold than the side that drove the search
SearchCrosses ==
  (Mode = "search" /\ probe.out = "return") =>
     (probe.tooBig /\ probe.last = "le") \/ (~probe.tooBig /\ probe.last = "gt")
SearchBounded == Mode = "search" => probe.s <= MaxProbes

\* export for the spec -> code replay
Leaf == \/ (Mode \in {"moments", "dual"} /\ Len(hist) >= 1)
        \/ (Mode = "search" /\ probe.out # "running")
PrintLeaf ==
  Leaf => PrintT(ToJson([mode |-> Mode, hist |-> hist,
                         n |-> IF Mode = "moments" THEN Merged.n ELSE 0,
                         m2 |-> IF Mode = "moments" THEN Merged.m2 ELSE ZeroM,
                         dual |-> IF Mode = "dual" THEN [c \in 1..NChain |-> [iter |-> ads[c].iter, smoothed |-> ads[c].smoothed,
                                                                           logstep |-> ads[c].logstep]]
                                  ELSE <<>>,
                         search |-> probe]))
=============================================================================
