----------------------------- MODULE CacheTables -----------------------------
(***************************************************************************)
(* Specification-side tables for StateCache.tla: what each system method   *)
(* of each mici system class is DOCUMENTED to compute from.                 *)
(*                                                                          *)
(*   reads  : state variables the method's formula reads directly           *)
(*   calls  : other system methods it invokes, in order                      *)
(*   fn     : user-supplied model function it evaluates ("" if none)        *)
(*   memo   : TRUE if the method is decorated with a state cache             *)
(*                                                                          *)
(* These are NOT extracted from the code: they are the yardstick against    *)
(* which the declared cache dependencies (extracted from the code on every  *)
(* run, module CacheConsts) are judged.                                      *)
(***************************************************************************)
EXTENDS Sequences

\* documented auxiliary outputs of derivative functions (returned together with the derivative when
\* the user function follows the tuple convention), by method name
AuxDoc(m) ==
  CASE m = "grad_neg_log_dens" -> <<"neg_log_dens">>
    [] m = "jacob_constr" -> <<"constr">>
    [] m = "mhp_constr" -> <<"jacob_constr", "constr">>
    [] m = "vjp_metric_func" -> <<"metric_func">>
    [] m = "hess_neg_log_dens" -> <<"grad_neg_log_dens", "neg_log_dens">>
    [] m = "mtp_neg_log_dens" -> <<"hess_neg_log_dens", "grad_neg_log_dens", "neg_log_dens">>
    [] OTHER -> <<>>
M(reads, calls, fn, memo) == [reads |-> reads, calls |-> calls, fn |-> fn, memo |-> memo]

BaseTable ==
  [ neg_log_dens      |-> M({"pos"}, <<>>, "neg_log_dens", TRUE),
    grad_neg_log_dens |-> M({"pos"}, <<>>, "grad_neg_log_dens", TRUE) ]

EuclideanTable ==
  [ neg_log_dens      |-> M({"pos"}, <<>>, "neg_log_dens", TRUE),
    grad_neg_log_dens |-> M({"pos"}, <<>>, "grad_neg_log_dens", TRUE),
    h2                |-> M({"mom"}, <<"dh2_dmom">>, "", TRUE),
    dh2_dmom          |-> M({"mom"}, <<>>, "", TRUE),
    h1                |-> M({}, <<"neg_log_dens">>, "", FALSE),
    dh1_dpos          |-> M({}, <<"grad_neg_log_dens">>, "", FALSE),
    h                 |-> M({}, <<"h1", "h2">>, "", FALSE),
    dh_dmom           |-> M({}, <<"dh2_dmom">>, "", FALSE),
    dh_dpos           |-> M({}, <<"dh1_dpos">>, "", FALSE) ]

\* h2 = 1/2 q.q + 1/2 p M^-1 p is not memoised; dh2_dpos = q; dh_dpos = dh1_dpos + dh2_dpos
GaussianTable ==
  [ neg_log_dens      |-> M({"pos"}, <<>>, "neg_log_dens", TRUE),
    grad_neg_log_dens |-> M({"pos"}, <<>>, "grad_neg_log_dens", TRUE),
    h2                |-> M({"pos", "mom"}, <<>>, "", FALSE),
    dh2_dmom          |-> M({"mom"}, <<>>, "", TRUE),
    dh2_dpos          |-> M({"pos"}, <<>>, "", TRUE),
    h1                |-> M({}, <<"neg_log_dens">>, "", FALSE),
    dh1_dpos          |-> M({}, <<"grad_neg_log_dens">>, "", FALSE),
    h                 |-> M({}, <<"h1", "h2">>, "", FALSE),
    dh_dmom           |-> M({}, <<"dh2_dmom">>, "", FALSE) ]

\* Dense constrained system, density w.r.t. the Lebesgue measure (Gram term present)
ConstrainedTable ==
  [ neg_log_dens      |-> M({"pos"}, <<>>, "neg_log_dens", TRUE),
    grad_neg_log_dens |-> M({"pos"}, <<>>, "grad_neg_log_dens", TRUE),
    h2                |-> M({"mom"}, <<"dh2_dmom">>, "", TRUE),
    dh2_dmom          |-> M({"mom"}, <<>>, "", TRUE),
    constr            |-> M({"pos"}, <<>>, "constr", TRUE),
    jacob_constr      |-> M({"pos"}, <<>>, "jacob_constr", TRUE),
    gram              |-> M({}, <<"jacob_constr">>, "", TRUE),
    mhp_constr        |-> M({"pos"}, <<>>, "mhp_constr", TRUE),
    grad_log_det_sqrt_gram |-> M({}, <<"mhp_constr", "gram", "jacob_constr">>, "", TRUE),
    inv_gram          |-> M({}, <<"gram">>, "", FALSE),
    log_det_sqrt_gram |-> M({}, <<"gram">>, "", FALSE),
    h1                |-> M({}, <<"neg_log_dens", "log_det_sqrt_gram">>, "", FALSE),
    dh1_dpos          |-> M({}, <<"grad_neg_log_dens", "grad_log_det_sqrt_gram">>, "", FALSE),
    h                 |-> M({}, <<"h1", "h2">>, "", FALSE),
    dh_dmom           |-> M({}, <<"dh2_dmom">>, "", FALSE) ]

\* Dense constrained system, density w.r.t. the Hausdorff measure (no Gram term in h1)
ConstrainedHausdorffTable ==
  [ neg_log_dens      |-> M({"pos"}, <<>>, "neg_log_dens", TRUE),
    grad_neg_log_dens |-> M({"pos"}, <<>>, "grad_neg_log_dens", TRUE),
    h2                |-> M({"mom"}, <<"dh2_dmom">>, "", TRUE),
    dh2_dmom          |-> M({"mom"}, <<>>, "", TRUE),
    constr            |-> M({"pos"}, <<>>, "constr", TRUE),
    jacob_constr      |-> M({"pos"}, <<>>, "jacob_constr", TRUE),
    gram              |-> M({}, <<"jacob_constr">>, "", TRUE),
    inv_gram          |-> M({}, <<"gram">>, "", FALSE),
    h1                |-> M({}, <<"neg_log_dens">>, "", FALSE),
    dh1_dpos          |-> M({}, <<"grad_neg_log_dens">>, "", FALSE),
    h                 |-> M({}, <<"h1", "h2">>, "", FALSE),
    dh_dmom           |-> M({}, <<"dh2_dmom">>, "", FALSE) ]

\* Riemannian systems (scalar / diagonal / Cholesky / dense metric functions)
RiemannianTable ==
  [ neg_log_dens      |-> M({"pos"}, <<>>, "neg_log_dens", TRUE),
    grad_neg_log_dens |-> M({"pos"}, <<>>, "grad_neg_log_dens", TRUE),
    metric_func       |-> M({"pos"}, <<>>, "metric_func", TRUE),
    vjp_metric_func   |-> M({"pos"}, <<>>, "vjp_metric_func", TRUE),
    metric            |-> M({}, <<"metric_func">>, "", TRUE),
    h1                |-> M({}, <<"neg_log_dens", "metric">>, "", FALSE),
    dh1_dpos          |-> M({}, <<"vjp_metric_func", "grad_neg_log_dens", "metric">>, "", FALSE),
    h2                |-> M({"mom"}, <<"metric">>, "", FALSE),
    dh2_dpos          |-> M({"mom"}, <<"vjp_metric_func", "metric">>, "", FALSE),
    dh2_dmom          |-> M({"mom"}, <<"metric">>, "", FALSE),
    h                 |-> M({}, <<"h1", "h2">>, "", FALSE),
    dh_dmom           |-> M({}, <<"dh2_dmom">>, "", FALSE),
    dh_dpos           |-> M({}, <<"dh1_dpos", "dh2_dpos">>, "", FALSE) ]

\* SoftAbs: metric_func / vjp_metric_func are un-memoised aliases of the Hessian / MTP methods
SoftAbsTable ==
  [ neg_log_dens      |-> M({"pos"}, <<>>, "neg_log_dens", TRUE),
    grad_neg_log_dens |-> M({"pos"}, <<>>, "grad_neg_log_dens", TRUE),
    hess_neg_log_dens |-> M({"pos"}, <<>>, "hess_neg_log_dens", TRUE),
    mtp_neg_log_dens  |-> M({"pos"}, <<>>, "mtp_neg_log_dens", TRUE),
    metric_func       |-> M({}, <<"hess_neg_log_dens">>, "", FALSE),
    vjp_metric_func   |-> M({}, <<"mtp_neg_log_dens">>, "", FALSE),
    metric            |-> M({}, <<"metric_func">>, "", TRUE),
    h1                |-> M({}, <<"neg_log_dens", "metric">>, "", FALSE),
    dh1_dpos          |-> M({}, <<"vjp_metric_func", "grad_neg_log_dens", "metric">>, "", FALSE),
    h2                |-> M({"mom"}, <<"metric">>, "", FALSE),
    dh2_dpos          |-> M({"mom"}, <<"vjp_metric_func", "metric">>, "", FALSE),
    dh2_dmom          |-> M({"mom"}, <<"metric">>, "", FALSE),
    h                 |-> M({}, <<"h1", "h2">>, "", FALSE),
    dh_dmom           |-> M({}, <<"dh2_dmom">>, "", FALSE),
    dh_dpos           |-> M({}, <<"dh1_dpos", "dh2_dpos">>, "", FALSE) ]

Tables ==
  [ Euclidean |-> EuclideanTable, Gaussian |-> GaussianTable,
    Constrained |-> ConstrainedTable, ConstrainedHausdorff |-> ConstrainedHausdorffTable,
    Riemannian |-> RiemannianTable, SoftAbs |-> SoftAbsTable ]
=============================================================================
