----------------------------- MODULE ChainMonitor -----------------------------
(***************************************************************************)
(* Chain-level monitor for C12: a short real chain is run with ONE fault   *)
(* injected into a user model function at call index k (NaN, +inf, -inf    *)
(* return value; ValueError / LinAlgError raised inside an iterative       *)
(* solve).  Per iteration the harness records what crossed the integrator  *)
(* boundary (IntegratorError subclasses raised by integrator.step), the    *)
(* transition statistics and measured facts about the new chain state.     *)
(* The monitor replays the iterations one per step and evaluates the       *)
(* containment invariants in every state.                                   *)
(***************************************************************************)
EXTENDS Integers, Sequences, FiniteSets, TLC, Json, ChainData
\* ChainData: Chains == << [kind, fault, at, completed, escaped, iters |-> << [errs, conv, nonrev, div, accfinite, acczero,
\*                                                                            finite, valid, moved, faulted, postfault, intraj, hfault] >>, dynamic] >>

VARIABLES q, i
Init == q \in 1..Len(Chains) /\ i = 0
Next == i < Len(Chains[q].iters) /\ i' = i + 1 /\ q' = q
Spec == Init /\ [][Next]_<<q, i>>

C == Chains[q]
It == C.iters[i]

\* the chain continues: no exception escapes sample() and every requested iteration is run
ChainContinues == C.escaped = "" /\ C.completed

\* the chain state stays finite and valid (finite energy; on the manifold for constrained systems)
StateStaysValid == i > 0 => It.finite /\ It.valid

\* solver failures and failed reversibility checks are recorded in the statistics, and only then
FlagsRecordFailures ==
  i > 0 => /\ It.conv = ("ConvergenceError" \in It.errs)
           /\ It.nonrev = ("NonReversibleStepError" \in It.errs)
           /\ It.errs \subseteq {"ConvergenceError", "NonReversibleStepError"}

\* a trajectory cut by a failure counts as a rejection in the acceptance statistic
FailureIsRejection == i > 0 => (It.accfinite /\ ((It.conv \/ It.nonrev \/ It.div) => It.acczero))

\* an iteration in which nothing went wrong records no failure
NoSpuriousFlags == (i > 0 /\ ~It.faulted /\ It.errs = {}) => (~It.conv /\ ~It.nonrev)

\* hfault: the energy of a candidate of the trajectory (evaluated by the transition after at least one integrator
\* step) came out NaN / +inf.  The new chain state is then the old one or a candidate the transition had finished
\* with BEFORE that evaluation (a "previously valid candidate"), never the faulty candidate or a later one ...
NoPostFaultCandidate ==
  (i > 0 /\ It.hfault /\ C.fault \in {"nan", "inf"}) => ~It.postfault

\* ... and a dynamic transition records the event as a divergence
DivergenceRecorded ==
  (i > 0 /\ C.dynamic /\ It.hfault /\ C.fault \in {"nan", "inf"}) => It.div

Verdict ==
  (i = Len(C.iters)) =>
    PrintT(ToJson([q |-> q, ChainContinues |-> ChainContinues]))
=============================================================================
