------------------------------ MODULE FiniteFlow ------------------------------
(***************************************************************************)
(* Exact discrete dynamics for the explicit integrators (C02): component   *)
(* flows as group actions on the finite phase space Z_P x Z_P, time in      *)
(* units of step/DEN.                                                        *)
(*    h1_flow(k) : mom := mom - k * G[pos]          (G an arbitrary table)  *)
(*    h2_flow(k) : pos := pos + k * mom                                      *)
(* A symmetric composition with coefficients c_1..c_m (numerators over DEN, *)
(* palindromic, derived as in Integrators.tla) is the product of these      *)
(* actions.  Because the phase space is finite, TLC checks for EVERY state   *)
(* that  flip o step^n o flip o step^n = id  (n <= MaxN) and that step is a  *)
(* bijection.  The same step is then executed by the REAL integrator class   *)
(* on a mock system implementing these flows, for every state.               *)
(***************************************************************************)
EXTENDS Integers, Sequences, FiniteSets, TLC, Json

CONSTANTS P,        \* prime modulus
          G,        \* force table: sequence of length P with values in 0..P-1 (G[x+1] = grad at x)
          Coeffs,   \* numerators of the coefficients over DEN, palindromic
          DEN,      \* common denominator (invertible mod P)
          H1First,  \* whether the first flow is h1_flow
          MaxN

RECURSIVE PowMod(_, _, _)
PowMod(b, e, p) == IF e = 0 THEN 1 ELSE LET h == PowMod(b, e \div 2, p) hh == (h * h) % p
                                       IN IF e % 2 = 1 THEN (hh * (b % p)) % p ELSE hh
InvDen == PowMod(DEN % P, P - 2, P)
Mod(x) == ((x % P) + P) % P
\* a time of k/DEN steps in direction d acts with the field element d * k * DEN^-1
Tm(k, d) == Mod(d * k * InvDen)

H1(s, t) == [s EXCEPT !.mom = Mod(s.mom - t * G[s.pos + 1])]
H2(s, t) == [s EXCEPT !.pos = Mod(s.pos + t * s.mom)]
IsH1(i) == (i % 2 = 1) = H1First

RECURSIVE Apply(_, _)
Apply(s, i) == IF i > Len(Coeffs) THEN s
               ELSE Apply(IF IsH1(i) THEN H1(s, Tm(Coeffs[i], s.dir)) ELSE H2(s, Tm(Coeffs[i], s.dir)), i + 1)
Step(s) == Apply(s, 1)
Flip(s) == [s EXCEPT !.dir = -s.dir]
RECURSIVE StepN(_, _)
StepN(s, n) == IF n = 0 THEN s ELSE StepN(Step(s), n - 1)

States == [pos : 0..(P - 1), mom : 0..(P - 1), dir : {1, -1}]

VARIABLE s
Init == s \in States
Next == UNCHANGED s
Spec == Init /\ [][Next]_s

\* C02: time reversibility for every state and every trajectory length
Reversible == \A n \in 1..MaxN : Flip(StepN(Flip(StepN(s, n)), n)) = s
\* the step is injective on the finite phase space, hence a bijection (volume preserving)
Bijective == \A t \in States : (t # s /\ t.dir = s.dir) => Step(t) # Step(s)
DirKept == Step(s).dir = s.dir
Palindromic == \A i \in 1..Len(Coeffs) : Coeffs[i] = Coeffs[Len(Coeffs) + 1 - i]

PrintStep == PrintT(ToJson([s |-> s, next |-> Step(s)]))
=============================================================================
