------------------------------ MODULE FlowExact ------------------------------
(***************************************************************************)
(* C07: the component flow maps of the tractable-flow systems of            *)
(* mici/systems.py, decided by EXACT rational arithmetic.                   *)
(*                                                                          *)
(*   h1_flow(t)  : (q, p) -> (q, p - t * dh1/dq)       for every system,     *)
(*                 rational t; dh1/dq is the exact derivative of the         *)
(*                 documented h1 (module ZooModel, as in SysGrad.tla)         *)
(*   h2_flow(t)  : Euclidean-type systems (h2 = 1/2 p'M^-1 p):                *)
(*                 (q, p) -> (q + t M^-1 p, p), rational t                    *)
(*               : Gaussian-split systems (h2 = 1/2 q'q + 1/2 p'M^-1 p): in   *)
(*                 the eigenbasis of M = Q diag(1/k_i^2) Q' every coordinate   *)
(*                 pair is a harmonic oscillator of frequency k_i:             *)
(*                    q~(t) = cos(k t) q~ + k sin(k t) p~                      *)
(*                    p~(t) = cos(k t) p~ - sin(k t)/k q~                      *)
(*                 For metrics with rational Q and integer k_i and times       *)
(*                 t = j * theta, theta = atan2(3, -4), the sines and cosines   *)
(*                 are rational (multiples of a Pythagorean angle, computed    *)
(*                 with the addition formulas), so the flow is exact.          *)
(*   dh2_flow_dmom(t) : the Jacobian blocks d q(t)/d p, d p(t)/d p, obtained   *)
(*                 by applying the (linear) exact flow to the unit momenta.    *)
(*                                                                          *)
(* Sanity invariants of the oracle itself, all exact: the flow conserves h2, *)
(* Phi(s) o Phi(t) = Phi(s + t), Phi(-t) o Phi(t) = id.  The real flows      *)
(* must reproduce the exported states, including for times longer than an     *)
(* oscillation period.                                                         *)
(***************************************************************************)
EXTENDS Integers, Sequences, FiniteSets, TLC, Json, ZooModel

CONSTANT Cases   \* records [sys, metric, curved, st, t] ; t = <<num, den>> (rational time) or an integer j (time j * theta)

\* ---- multiples of the Pythagorean angle theta = atan2(3, -4) ~ 2.498 (so that 3 theta exceeds a full period
\*      while the denominators 5^m stay inside TLC's 32-bit integers): <<cos, sin>> as rationals ----
AngAdd(a, b) == << QSub(QMul(a[1], b[1]), QMul(a[2], b[2])), QAdd(QMul(a[2], b[1]), QMul(a[1], b[2])) >>
Theta == << <<-4, 5>>, <<3, 5>> >>
RECURSIVE AngMul(_)
AngMul(j) == IF j = 0 THEN << R(1), R(0) >>
             ELSE IF j < 0 THEN LET a == AngMul(-j) IN << a[1], QNeg(a[2]) >>
             ELSE AngAdd(AngMul(j - 1), Theta)

\* metrics of the Gaussian family: M = Q diag(1 / k_i^2) Q'  with rational orthogonal Q and integer k_i
Rot3 == << << <<3, 5>>, <<-4, 5>>, R(0) >>, << <<4, 5>>, <<3, 5>>, R(0) >>, << R(0), R(0), R(1) >> >>
\* "blockk": a rotation in the plane of coordinates 2, 3 (the metric is block diagonal: a 1 x 1 diagonal block and a
\* dense 2 x 2 block)
RotB == << << R(1), R(0), R(0) >>, << R(0), <<3, 5>>, <<-4, 5>> >>, << R(0), <<4, 5>>, <<3, 5>> >> >>
GQ(metric) == IF metric = "rotk" THEN Rot3 ELSE IF metric = "blockk" THEN RotB ELSE MIdentity(N)
\* frequencies k_i (rationals) and the phase advance of coordinate i per unit of the time index j, in multiples of
\* theta.  For "diaghalf" = diag(4, 1, 4) the frequencies are 1/2, 1, 1/2 and the time unit is 2 theta (phases 1, 2, 1
\* per unit): non-commensurate with a reduction of the time modulo 2 pi.
\* "scalhalf" = 4 I and "scalk2" = I / 4 are scaled-identity metrics (frequency 1/2 with time unit 2 theta, and
\* frequency 2 with time unit theta): the isotropic case, handed to the code as a (Positive)ScaledIdentityMatrix.
GK(metric) == CASE metric = "identity" -> << R(1), R(1), R(1) >>
                [] metric = "diagk2" -> << R(1), R(2), R(1) >>
                [] metric = "diaghalf" -> << <<1, 2>>, R(1), <<1, 2>> >>
                [] metric = "blockk" -> << R(2), R(1), R(2) >>
                [] metric = "scalhalf" -> << <<1, 2>>, <<1, 2>>, <<1, 2>> >>
                [] metric = "scalk2" -> << R(2), R(2), R(2) >>
                [] OTHER -> << R(1), R(2), R(3) >>
GPh(metric) == CASE metric = "identity" -> <<1, 1, 1>>
                 [] metric = "diagk2" -> <<1, 2, 1>>
                 [] metric = "diaghalf" -> <<1, 2, 1>>
                 [] metric = "blockk" -> <<2, 1, 2>>
                 [] metric = "scalhalf" -> <<1, 1, 1>>
                 [] metric = "scalk2" -> <<2, 2, 2>>
                 [] OTHER -> <<1, 2, 3>>
GMetric(metric) == MMul(GQ(metric), MMul(MDiag([i \in 1..N |-> QDiv(R(1), QMul(GK(metric)[i], GK(metric)[i]))]), MTranspose(GQ(metric))))

IsGaussSys(s) == s \in {"Gaussian", "GaussianConstrained"}
MetricOf(s, metric) == IF IsGaussSys(s) THEN GMetric(metric) ELSE ConstMetric(metric)

Vec(m) == TLCEval([i \in 1..Len(m) |-> m[i][1]])

\* exact h2 flow
H2Flow(s, metric, qq, pp, t) ==
  IF ~IsGaussSys(s)
  THEN [q |-> VAdd(qq, Vec(MScale(MMul(MInverse(ConstMetric(metric)), Col(pp)), t))), p |-> pp]
  ELSE LET Q == GQ(metric)
           qt == Vec(MMul(MTranspose(Q), Col(qq)))
           pt == Vec(MMul(MTranspose(Q), Col(pp)))
           cs == TLCEval([i \in 1..N |-> AngMul(GPh(metric)[i] * t)])
           q2 == TLCEval([i \in 1..N |-> QAdd(QMul(cs[i][1], qt[i]), QMul(QMul(GK(metric)[i], cs[i][2]), pt[i]))])
           p2 == TLCEval([i \in 1..N |-> QSub(QMul(cs[i][1], pt[i]), QMul(QMul(QDiv(R(1), GK(metric)[i]), cs[i][2]), qt[i]))])
       IN [q |-> Vec(MMul(Q, Col(q2))), p |-> Vec(MMul(Q, Col(p2)))]

H2Energy(s, metric, qq, pp) ==
  QAdd(Kinetic(MetricOf(s, metric), pp), IF IsGaussSys(s) THEN QMul(Half, Dot(qq, qq)) ELSE R(0))

\* exact derivative of the documented h1
DH1(s, metric, curved, qq) ==
  VAdd(GradF(qq), IF s \in {"Constrained", "GaussianConstrained"}
                  THEN HalfLogDetGrad(LAMBDA x : Gram(curved, MetricOf(s, metric), x), qq) ELSE Zero)
H1Flow(s, metric, curved, qq, pp, t) ==
  LET d == DH1(s, metric, curved, qq) IN [q |-> qq, p |-> TLCEval([i \in 1..N |-> QSub(pp[i], QMul(t, d[i]))])]

VARIABLE c
Init == c \in Cases
Next == UNCHANGED c
Spec == Init /\ [][Next]_c

Qs == c.st.q
Ps == c.st.p
T == c.t
Neg(t) == IF IsGaussSys(c.sys) THEN -t ELSE QNeg(t)
Twice(t) == IF IsGaussSys(c.sys) THEN 2 * t ELSE QMul(R(2), t)
Flow(qq, pp, t) == H2Flow(c.sys, c.metric, qq, pp, t)
Out == TLCEval(Flow(Qs, Ps, T))

\* sanity of the oracle (the quadratic energy and the doubled time square / double the denominators 5^m: they are
\* evaluated only while that fits TLC's 32-bit integers)
MaxPhase == IF IsGaussSys(c.sys) THEN (IF T < 0 THEN -T ELSE T) * 3 ELSE 0
\* (for the Euclidean-type flows the momentum, and with it h2, is literally unchanged)
ConservesEnergy == IF IsGaussSys(c.sys) THEN (MaxPhase <= 3 => H2Energy(c.sys, c.metric, Out.q, Out.p) = H2Energy(c.sys, c.metric, Qs, Ps))
                   ELSE Out.p = Ps
UndoneByNegativeTime == LET b == Flow(Out.q, Out.p, Neg(T)) IN b.q = Qs /\ b.p = Ps
AdditiveInTime == MaxPhase <= 3 => LET b == Flow(Out.q, Out.p, T) d == Flow(Qs, Ps, Twice(T)) IN b.q = d.q /\ b.p = d.p
MetricPosDef == MIsPosDef(MetricOf(c.sys, c.metric))

\* Jacobian blocks with respect to the initial momentum: the flow is linear, apply it to unit momenta
UnitVec(i) == TLCEval([k \in 1..N |-> IF k = i THEN R(1) ELSE R(0)])
DPosDMom == [r \in 1..N |-> [i \in 1..N |-> Flow(Zero, UnitVec(i), T).q[r]]]
DMomDMom == [r \in 1..N |-> [i \in 1..N |-> Flow(Zero, UnitVec(i), T).p[r]]]

Export ==
  PrintT(ToJson([sys |-> c.sys, metric |-> c.metric, curved |-> c.curved, q |-> Qs, p |-> Ps, t |-> T,
                 h2 |-> Out, dpos_dmom |-> DPosDMom, dmom_dmom |-> DMomDMom,
                 h1 |-> IF c.h1 THEN H1Flow(c.sys, c.metric, c.curved, Qs, Ps, c.t1) ELSE [q |-> << >>, p |-> << >>],
                 t1 |-> c.t1, marray |-> MetricOf(c.sys, c.metric)]))
=============================================================================
