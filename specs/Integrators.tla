----------------------------- MODULE Integrators -----------------------------
(***************************************************************************)
(* The integrators of mici/integrators.py as their DOCUMENTED compositions *)
(* of sub-steps, each carrying the fraction of the step it integrates for. *)
(* Time is counted in micro-units of the step size (U = 10^6 = one step in  *)
(* the direction of integration).                                           *)
(*                                                                          *)
(*   leapfrog              A(t/2) B(t) A(t/2)                                *)
(*   symmetric composition coefficients derived from the free ones          *)
(*   implicit leapfrog     A(t/2) B(t/2) C(t/2) C*(t/2) B*(t/2) A*(t/2)      *)
(*   implicit midpoint     A(t/2) A*(t/2)                                    *)
(*   constrained leapfrog  A(t/2) B(t/N)^N A(t/2), projection after every   *)
(*                         sub-step, reverse check after every implicit one *)
(*                                                                          *)
(* Part 1 (model checking): the derivation of the dependent composition     *)
(* coefficients, for every tuple of free coefficients from a grid: TLC      *)
(* checks that the scheme is palindromic, alternates the two flows and that *)
(* each component's fractions sum to exactly one step.                      *)
(* Part 2 (trace validation, module Trace_Integrators): events recorded     *)
(* from real steps must spell out the documented program.                   *)
(***************************************************************************)
EXTENDS Integers, Sequences, FiniteSets, TLC, Json

U == 1000000
H == 500000

RECURSIVE SumSeq(_)
SumSeq(s) == IF s = <<>> THEN 0 ELSE Head(s) + SumSeq(Tail(s))
Rev(s) == [i \in 1..Len(s) |-> s[Len(s) + 1 - i]]
\* elements of s at 0-based positions start, start+2, ...
EveryOther(s, start) == LET idx == {i \in 1..Len(s) : (i - 1) >= start /\ ((i - 1 - start) % 2) = 0}
                        IN SumSeq([j \in 1..Cardinality(idx) |->
                              s[CHOOSE i \in idx : Cardinality({k \in idx : k < i}) = j - 1]])

\* SymmetricCompositionIntegrator.__init__: coefficients from the free coefficients (micro-units)
Coefficients(free) ==
  LET n == Len(free)
      c1 == H - EveryOther(free, n % 2)
      c2 == U - 2 * EveryOther(free, (n + 1) % 2)
      firsthalf == free \o <<c1, c2>>
  IN firsthalf \o Rev(SubSeq(firsthalf, 1, Len(firsthalf) - 1))

\* flows alternate a, b, a, ..., a  (a = h1 if initial_h1_flow_step else h2)
FlowAt(i, h1first) == IF (i % 2 = 1) = h1first THEN "h1_flow" ELSE "h2_flow"

CompositionProgram(free, h1first) ==
  LET c == Coefficients(free)
  IN [i \in 1..Len(c) |-> [op |-> FlowAt(i, h1first), frac |-> c[i]]]

\* ---- documented programs of the other integrators ---------------------------------
Ev(op, frac) == [op |-> op, frac |-> frac]

LeapfrogProgram == <<Ev("h1_flow", H), Ev("h2_flow", U), Ev("h1_flow", H)>>

\* implicit sub-steps are observed through the fixed-point solver ("fp") and the reverse check
\* ("rev"); the fraction of an implicit sub-step is the time step captured by the fixed-point map
ImplicitLeapfrogProgram ==
  <<Ev("h1_flow", H),
    Ev("fp", H),                       \* B(t/2)   implicit momentum update
    Ev("fp", -H), Ev("rev", 0),        \* C(t/2)   explicit position update, checked by C*(-t/2)
    Ev("fp", H),                       \* C*(t/2)  implicit position update
    Ev("fp", -H), Ev("rev", 0),        \* B*(t/2)  explicit momentum update, checked by B(-t/2)
    Ev("h1_flow", H)>>

ImplicitMidpointProgram ==
  <<Ev("fp", H),                       \* A(t/2)   implicit Euler half step
    Ev("fp", -H), Ev("rev", 0)>>       \* A*(t/2)  explicit Euler half step, checked by A(-t/2)

RECURSIVE InnerSteps(_, _, _)
InnerSteps(n, N, last) ==
  IF n = 0 THEN <<>>
  ELSE <<Ev("h2_flow", U \div N), Ev("proj_pos", U \div N)>>
       \o (IF n = 1 THEN <<Ev("dh1_dpos", 0)>> ELSE <<>>)
       \o <<Ev("proj_mom", 0), Ev("h2_flow", -(U \div N)), Ev("proj_pos", -(U \div N)), Ev("rev", 0)>>
       \o InnerSteps(n - 1, N, last)

ConstrainedProgram(N) ==
  <<Ev("h1_flow", H), Ev("proj_mom", 0)>> \o InnerSteps(N, N, TRUE) \o <<Ev("h1_flow", H), Ev("proj_mom", 0)>>

Program(kind, N, free, h1first) ==
  CASE kind = "leapfrog" -> LeapfrogProgram
    [] kind = "composition" -> CompositionProgram(free, h1first)
    [] kind = "implicit_leapfrog" -> ImplicitLeapfrogProgram
    [] kind = "implicit_midpoint" -> ImplicitMidpointProgram
    [] kind = "constrained" -> ConstrainedProgram(N)

\* time integrated per component by a program (forward sub-steps only count once: the
\* backward replays of reverse checks are on copies of the state)
Budget(prog, op) == SumSeq([i \in 1..Len(prog) |-> IF prog[i].op = op /\ prog[i].frac > 0 THEN prog[i].frac ELSE 0])

-----------------------------------------------------------------------------
(* Part 1: model checking the coefficient derivation *)
CONSTANTS Grid,       \* set of free coefficient values (micro-units)
          MaxFree     \* maximal number of free coefficients

VARIABLES free, h1first
Init == free = <<>> /\ h1first \in BOOLEAN
Next == /\ Len(free) < MaxFree
        /\ \E g \in Grid : free' = Append(free, g)
        /\ UNCHANGED h1first
Spec == Init /\ [][Next]_<<free, h1first>>

C == Coefficients(free)
Palindromic == \A i \in 1..Len(C) : C[i] = C[Len(C) + 1 - i]
OddLength == Len(C) = 2 * Len(free) + 3
Alternates == LET P == CompositionProgram(free, h1first) IN
              /\ P[1].op = P[Len(P)].op
              /\ \A i \in 1..(Len(P) - 1) : P[i].op # P[i + 1].op
\* consistency: the fractions of each component sum to exactly one step
SumsToOne == LET P == CompositionProgram(free, h1first) IN
             /\ SumSeq([i \in 1..Len(P) |-> IF P[i].op = "h1_flow" THEN P[i].frac ELSE 0]) = U
             /\ SumSeq([i \in 1..Len(P) |-> IF P[i].op = "h2_flow" THEN P[i].frac ELSE 0]) = U
LeapfrogIsSpecialCase == free = <<>> => [i \in 1..3 |-> C[i]] = <<H, U, H>>
\* the other documented programs respect the same budgets
FixedProgramsConsistent ==
  /\ Budget(LeapfrogProgram, "h1_flow") = U /\ Budget(LeapfrogProgram, "h2_flow") = U
  /\ Budget(ImplicitLeapfrogProgram, "h1_flow") = U
  /\ Budget(ImplicitLeapfrogProgram, "fp") = 2 * H      \* B(t/2) + C*(t/2) implicit halves
  /\ Budget(ImplicitMidpointProgram, "fp") = H
  /\ \A N \in 1..4 : (U % N = 0) =>
        /\ Budget(ConstrainedProgram(N), "h1_flow") = U
        /\ Budget(ConstrainedProgram(N), "h2_flow") = U

PrintCoefficients == PrintT(ToJson([free |-> free, h1first |-> h1first, coefficients |-> C]))
=============================================================================
