----------------------------- MODULE LogWeights -----------------------------
(***************************************************************************)
(* C20.  The arithmetic of trajectory weights (mici/utils.py, LogRepFloat   *)
(* and the log-space helpers it is built on) as EXACT real arithmetic.      *)
(*                                                                          *)
(* A weight is  n/d * 2^(c*B + k)  with n, d small odd coprime naturals,    *)
(* a SYMBOLIC base exponent B (the same for the whole program, chosen by   *)
(* the harness anywhere in the double range of log-values: 0, +-40,         *)
(* +-1100 -- where the plain value over/underflows -- up to +-1e300) and    *)
(* integers c (how many factors 2^B the value carries: products raise it,   *)
(* ratios lower it) and k.  Sums, differences and comparisons are only      *)
(* defined between weights of the same c, and are then independent of B:    *)
(* one TLC run decides every magnitude.                                     *)
(*                                                                          *)
(* A program loads two registers from the leaf table and then applies up    *)
(* to MaxOps operators of the class: r3 := ra + rb, ra - rb, ra * rb,       *)
(* ra / rb; ra += rb (also ra += ra); ra += plain number.  Every reachable  *)
(* state is a program; it is exported with the exact value of each          *)
(* register, the exact three-way comparison of every pair of registers,     *)
(* and (short programs) the exact result of every mixed operator with the   *)
(* plain numbers of the table.  The harness executes the program on real    *)
(* LogRepFloat objects for every B and compares log-values.                 *)
(*                                                                          *)
(* Deliberate limits, named here: an addend smaller than 2^-NegGap          *)
(* relative to the other is dropped (NegGap = 80: below half an ulp of a     *)
(* double by 2^27); operand pairs with exponent gap in (AlignGap, NegGap)    *)
(* are not enabled (32-bit integers); differences are only enabled when      *)
(* they are zero by construction or at least a quarter of the minuend        *)
(* (the conditioning of the difference of two ROUNDED operands is not the   *)
(* implementation's business; the near-cancellation regime is covered by    *)
(* the exactly-representable-input family of the harness).                  *)
(***************************************************************************)
EXTENDS Integers, Sequences, FiniteSets, TLC, Json, Rat

CONSTANTS MaxOps, AlignGap, NegGap, MaxMant, MixedUpTo,
          FirstLeaves,     \* shard: the leaf names allowed in register 1
          LeafTable,       \* name -> value (engine: LeafTableDef appended to the module)
          PlainTable       \* name -> value with c = 0

Zero == [n |-> 0, d |-> 1, c |-> 0, k |-> 0]
IsZero(v) == v.n = 0

RECURSIVE Twos(_)
Twos(x) == IF x % 2 = 0 THEN 1 + Twos(x \div 2) ELSE 0
Canon(n, d, c, k) ==
  IF n = 0 THEN Zero
  ELSE LET g == RGcd(n, d)
           n1 == n \div g
           d1 == d \div g
           tn == Twos(n1)
           td == Twos(d1)
       IN [n |-> n1 \div (2 ^ tn), d |-> d1 \div (2 ^ td), c |-> c, k |-> k + tn - td]
Small(v) == v.n <= MaxMant /\ v.d <= MaxMant

Gap(x, y) == IF x.k >= y.k THEN x.k - y.k ELSE y.k - x.k
\* the pair can be aligned exactly, or one side is negligible
Comparable(x, y) == IsZero(x) \/ IsZero(y) \/ (x.c = y.c /\ (Gap(x, y) <= AlignGap \/ Gap(x, y) >= NegGap))

\* three-way comparison of the real values (-1, 0, 1)
Cmp3(x, y) ==
  IF IsZero(x) THEN (IF IsZero(y) THEN 0 ELSE -1)
  ELSE IF IsZero(y) THEN 1
  ELSE IF Gap(x, y) >= NegGap THEN (IF x.k > y.k THEN 1 ELSE -1)
  ELSE LET m == IF x.k < y.k THEN x.k ELSE y.k
           a == x.n * (2 ^ (x.k - m)) * y.d
           b == y.n * (2 ^ (y.k - m)) * x.d
       IN IF a < b THEN -1 ELSE IF a = b THEN 0 ELSE 1

VAdd(x, y) ==
  IF IsZero(x) THEN y
  ELSE IF IsZero(y) THEN x
  ELSE IF Gap(x, y) >= NegGap THEN (IF x.k > y.k THEN x ELSE y)
  ELSE LET m == IF x.k < y.k THEN x.k ELSE y.k
       IN Canon(x.n * (2 ^ (x.k - m)) * y.d + y.n * (2 ^ (y.k - m)) * x.d, x.d * y.d, x.c, m)

\* x - y for x >= y
VSub(x, y) ==
  IF IsZero(y) THEN x
  ELSE IF Gap(x, y) >= NegGap THEN x
  ELSE LET m == IF x.k < y.k THEN x.k ELSE y.k
       IN Canon(x.n * (2 ^ (x.k - m)) * y.d - y.n * (2 ^ (y.k - m)) * x.d, x.d * y.d, x.c, m)

VMul(x, y) == IF IsZero(x) \/ IsZero(y) THEN Zero ELSE Canon(x.n * y.n, x.d * y.d, x.c + y.c, x.k + y.k)
VDiv(x, y) == IF IsZero(x) THEN Zero ELSE Canon(x.n * y.d, x.d * y.n, x.c - y.c, x.k - y.k)       \* y # 0
Times4(v) == IF IsZero(v) THEN v ELSE [v EXCEPT !.k = @ + 2]

-----------------------------------------------------------------------------
Regs == 1 .. 3
None == [n |-> -1, d |-> 1, c |-> 0, k |-> 0]
IsSet(v) == v.n >= 0

VARIABLES reg,     \* register -> exact value (None: not yet assigned)
          pr,      \* register -> leaf name if the register still holds exactly the loaded leaf, "" otherwise
          loads,   \* the two leaf names
          ops      \* operators applied so far
vars == <<reg, pr, loads, ops>>

Init ==
  \E l1 \in FirstLeaves \cap DOMAIN LeafTable, l2 \in DOMAIN LeafTable :
    /\ reg = (1 :> LeafTable[l1]) @@ (2 :> LeafTable[l2]) @@ (3 :> None)
    /\ pr = (1 :> l1) @@ (2 :> l2) @@ (3 :> "")
    /\ loads = <<l1, l2>>
    /\ ops = <<>>

Set3(v, name, a, b) ==
  /\ Small(v)
  /\ reg' = [reg EXCEPT ![3] = v]
  /\ pr' = [pr EXCEPT ![3] = ""]
  /\ ops' = Append(ops, [op |-> name, a |-> a, b |-> b])
  /\ UNCHANGED loads

Add(a, b) == /\ IsSet(reg[a]) /\ IsSet(reg[b]) /\ Comparable(reg[a], reg[b])
             /\ Set3(VAdd(reg[a], reg[b]), "add", a, b)

\* difference of two log-represented weights, minuend >= subtrahend: stays log-represented.  Enabled when the
\* result is zero by construction (same register, or two untouched copies of one leaf) or well conditioned.
Sub(a, b) ==
  /\ IsSet(reg[a]) /\ IsSet(reg[b]) /\ Comparable(reg[a], reg[b])
  /\ Cmp3(reg[a], reg[b]) >= 0
  /\ LET r == VSub(reg[a], reg[b])
     IN /\ IF Cmp3(reg[a], reg[b]) = 0
           THEN a = b \/ (pr[a] # "" /\ pr[a] = pr[b])
           ELSE Comparable(Times4(r), reg[a]) /\ Cmp3(Times4(r), reg[a]) >= 0
        /\ Set3(r, "sub", a, b)

Mul(a, b) == /\ IsSet(reg[a]) /\ IsSet(reg[b])
             /\ Set3(VMul(reg[a], reg[b]), "mul", a, b)
Div(a, b) == /\ IsSet(reg[a]) /\ IsSet(reg[b]) /\ ~IsZero(reg[b])
             /\ Set3(VDiv(reg[a], reg[b]), "div", a, b)

\* in-place accumulation ra += rb (rb may be ra itself)
IAdd(a, b) ==
  /\ IsSet(reg[a]) /\ IsSet(reg[b]) /\ Comparable(reg[a], reg[b])
  /\ LET v == VAdd(reg[a], reg[b])
     IN /\ Small(v)
        /\ reg' = [reg EXCEPT ![a] = v]
        /\ pr' = [pr EXCEPT ![a] = ""]
  /\ ops' = Append(ops, [op |-> "iadd", a |-> a, b |-> b])
  /\ UNCHANGED loads

\* in-place accumulation of a plain non-negative number
IAddP(a, p) ==
  /\ IsSet(reg[a]) /\ Comparable(reg[a], PlainTable[p])
  /\ LET v == VAdd(reg[a], PlainTable[p])
     IN /\ Small(v)
        /\ reg' = [reg EXCEPT ![a] = v]
        /\ pr' = [pr EXCEPT ![a] = IF IsZero(PlainTable[p]) THEN pr[a] ELSE ""]
  /\ ops' = Append(ops, [op |-> "iaddp", a |-> a, b |-> p])
  /\ UNCHANGED loads

Next ==
  /\ Len(ops) < MaxOps
  /\ \/ \E a \in Regs, b \in Regs : Add(a, b) \/ Sub(a, b) \/ Mul(a, b) \/ Div(a, b) \/ IAdd(a, b)
     \/ \E a \in Regs, p \in DOMAIN PlainTable : IAddP(a, p)

Spec == Init /\ [][Next]_vars

-----------------------------------------------------------------------------
\* sanity of the oracle (checked in every state): canonical non-negative values with bounded mantissas
Canonical(v) == v.n >= 0 /\ v.d >= 1 /\ (v.n = 0 \/ (v.n % 2 = 1 /\ v.d % 2 = 1 /\ RGcd(v.n, v.d) = 1))
ValuesCanonical == \A r \in Regs : IsSet(reg[r]) => Canonical(reg[r]) /\ Small(reg[r])
\* a register that still holds its leaf holds the leaf's value
PristineMeansLeaf == \A r \in Regs : pr[r] # "" => reg[r] = LeafTable[pr[r]]

\* laws of the exact arithmetic on the leaf table (the oracle is a commutative ordered semiring where defined)
LeafVals == {LeafTable[l] : l \in DOMAIN LeafTable}
ASSUME \A x \in LeafVals, y \in LeafVals : Comparable(x, y) =>
         /\ VAdd(x, y) = VAdd(y, x)
         /\ Cmp3(x, y) = -Cmp3(y, x)
         /\ Cmp3(VAdd(x, y), x) >= 0
         /\ (Gap(x, y) <= AlignGap /\ ~IsZero(x) /\ ~IsZero(y)) => VSub(VAdd(x, y), y) = x
ASSUME \A x \in LeafVals, y \in LeafVals : VMul(x, y) = VMul(y, x) /\ (~IsZero(y) => VDiv(VMul(x, y), y) = x)
ASSUME \A x \in LeafVals, y \in LeafVals, z \in LeafVals :
         (Gap(x, y) <= AlignGap /\ Gap(y, z) <= AlignGap /\ Gap(x, z) <= AlignGap /\ x.c = y.c /\ y.c = z.c
          /\ ~IsZero(x) /\ ~IsZero(y) /\ ~IsZero(z) /\ Gap(VAdd(x, y), z) <= AlignGap /\ Gap(x, VAdd(y, z)) <= AlignGap)
         => /\ VAdd(VAdd(x, y), z) = VAdd(x, VAdd(y, z))
            /\ VMul(VAdd(x, y), z) = VAdd(VMul(x, z), VMul(y, z))

-----------------------------------------------------------------------------
\* export
V(v) == <<v.n, v.d, v.c, v.k>>
\* signed plain result: <<sign, n, d, c, k>>
S(s, v) == IF IsZero(v) THEN <<0, 0, 1, 0, 0>> ELSE <<s, v.n, v.d, v.c, v.k>>
Mixed(r, p) ==
  LET x == reg[r]
      q == PlainTable[p]
      cmpable == Comparable(x, q) /\ (IsZero(x) \/ IsZero(q) \/ x.c = 0)
  IN [r |-> r, p |-> p,
      add |-> IF cmpable /\ Small(VAdd(x, q)) THEN S(1, VAdd(x, q)) ELSE <<>>,
      sub |-> IF cmpable THEN (IF Cmp3(x, q) >= 0 THEN S(1, VSub(x, q)) ELSE S(-1, VSub(q, x))) ELSE <<>>,     \* x - p
      rsub |-> IF cmpable THEN (IF Cmp3(q, x) >= 0 THEN S(1, VSub(q, x)) ELSE S(-1, VSub(x, q))) ELSE <<>>,    \* p - x
      mul |-> S(1, VMul(x, q)),
      div |-> IF IsZero(q) THEN <<>> ELSE S(1, VDiv(x, q)),
      rdiv |-> IF IsZero(x) THEN <<>> ELSE S(1, VDiv(q, x)),
      cmp |-> IF cmpable THEN <<Cmp3(x, q)>> ELSE <<>>]

Sure(a, b) == Cmp3(reg[a], reg[b]) # 0 \/ a = b \/ (pr[a] # "" /\ pr[a] = pr[b])
\* difference ra - rb with ra < rb: a plain negative number
NegDiff(a, b) == S(-1, VSub(reg[b], reg[a]))
SetRegs == {r \in Regs : IsSet(reg[r])}
Export ==
  [loads |-> loads, ops |-> ops,
   regs |-> [r \in Regs |-> IF IsSet(reg[r]) THEN V(reg[r]) ELSE <<>>],
   cmps |-> {<<q[1], q[2], Cmp3(reg[q[1]], reg[q[2]])>> :
               q \in {u \in SetRegs \X SetRegs : Comparable(reg[u[1]], reg[u[2]]) /\ Sure(u[1], u[2])}},
   negdiffs |-> {<<q[1], q[2], NegDiff(q[1], q[2])>> :
                   q \in {u \in SetRegs \X SetRegs : Comparable(reg[u[1]], reg[u[2]]) /\ Cmp3(reg[u[1]], reg[u[2]]) < 0}},
   mixed |-> IF Len(ops) <= MixedUpTo
             THEN {Mixed(r, p) : r \in SetRegs, p \in DOMAIN PlainTable}
             ELSE {}]
PrintLeaf == PrintT(ToJson(Export))
=============================================================================
