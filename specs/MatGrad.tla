------------------------------- MODULE MatGrad -------------------------------
(***************************************************************************)
(* C11: the gradients reported by the differentiable matrix classes of     *)
(* mici/matrices.py, decided by EXACT rational arithmetic.                 *)
(*                                                                          *)
(* A differentiable matrix is a function M(P) of its first constructor      *)
(* parameter P (a scalar, a vector, a triangular or a dense array).  Its    *)
(* meaning is taken from MatSemantics (the same RecValue that C10 uses),    *)
(* NOT from any gradient formula: for the classes below M(P) is a           *)
(* polynomial of degree <= 2 in every entry of P, so the central difference *)
(*      dM/dP_ij = ( M(P + E_ij) - M(P - E_ij) ) / 2                         *)
(* is exact, and the true gradients are                                     *)
(*      d log|det M| / dP_ij = tr( M^-1 dM/dP_ij )                           *)
(*      d (v' M^-1 v) / dP_ij = - w' (dM/dP_ij) w ,   w = M^-1 v .           *)
(* TLC evaluates them for every differentiable leaf of MatLeaves, checks     *)
(* Euler's homogeneity identities on the result (a sanity check of the       *)
(* oracle that does not involve the implementation) and exports them; the    *)
(* real objects' grad_log_abs_det / grad_quadratic_form_inv must agree       *)
(* entry by entry and have the structure of the parameter.                   *)
(*                                                                          *)
(* Block-diagonal matrices: the gradient is the tuple of the blocks'         *)
(* gradients (log|det| and the quadratic form are sums over the blocks).     *)
(* SoftAbs matrices are not rational functions of their parameter and are    *)
(* outside this module (the harness treats them numerically).                *)
(***************************************************************************)
EXTENDS MatSemantics, Json

CONSTANT GradLeaves      \* names of the differentiable leaves to evaluate

ScalarClasses == {"ScaledIdentityMatrix", "PositiveScaledIdentityMatrix"}
VectorClasses == {"DiagonalMatrix", "PositiveDiagonalMatrix"}
TriClasses == {"TriangularFactoredDefiniteMatrix", "TriangularFactoredPositiveDefiniteMatrix"}
DenseClasses == {"DenseDefiniteMatrix", "DensePositiveDefiniteMatrix"}
ProductClasses == {"DensePositiveDefiniteProductMatrix"}
LowRankClasses == {"PositiveDefiniteLowRankUpdateMatrix"}
BlockClasses == {"PositiveDefiniteBlockDiagonalMatrix"}

\* the first constructor parameter as a matrix (scalars and vectors as 1 x 1 / 1 x n)
Param(l) ==
  CASE l.cls \in ScalarClasses -> << <<l.scalar>> >>
    [] l.cls \in VectorClasses -> l.p1
    [] l.cls \in TriClasses \cup DenseClasses \cup ProductClasses -> l.p1
    [] l.cls \in LowRankClasses -> LeafValue(l.subs[1])

\* the constructor record with the parameter replaced by P
WithParam(l, P) ==
  CASE l.cls \in ScalarClasses -> [l EXCEPT !.scalar = P[1][1]]
    [] l.cls \in LowRankClasses -> l        \* (handled in ValueAt)
    [] OTHER -> [l EXCEPT !.p1 = P]

\* M(P): the documented meaning of the class at parameter value P
ValueAt(l, P) ==
  IF l.cls \in LowRankClasses
  THEN MAdd(LeafValue(l.subs[3]), MScale(MMul(P, MMul(LeafValue(l.subs[4]), MTranspose(P))), R(l.sign)))
  ELSE RecValue(WithParam(l, P))

\* entries of P that are parameters (the unused triangle of a factor array is not)
IsParamEntry(l, i, j) ==
  IF l.cls \in TriClasses THEN (l.lower /\ j <= i) \/ (~l.lower /\ j >= i) ELSE TRUE

Bump(P, i, j, d) == [a \in 1..NRows(P) |-> [b \in 1..NCols(P) |-> IF a = i /\ b = j THEN QAdd(P[a][b], d) ELSE P[a][b]]]

DM(l, i, j) ==
  LET P == TLCEval(Param(l))
  IN TLCEval(MScale(MAdd(ValueAt(l, Bump(P, i, j, R(1))), MScale(ValueAt(l, Bump(P, i, j, R(-1))), R(-1))), <<1, 2>>))

\* a fixed rational test vector of the right length
TestVec(n) == SubSeq(<< R(1), <<-2, 1>>, <<1, 2>>, R(3) >>, 1, n)
ColVec(v) == [i \in 1..Len(v) |-> <<v[i]>>]

GradLogDet(l) ==
  LET P == TLCEval(Param(l)) Minv == TLCEval(MInverse(ValueAt(l, P)))
  IN [i \in 1..NRows(P) |-> [j \in 1..NCols(P) |->
        IF IsParamEntry(l, i, j) THEN MTrace(MMul(Minv, DM(l, i, j))) ELSE R(0)]]

GradQuad(l, v) ==
  LET P == TLCEval(Param(l))
      w == TLCEval(MMul(MInverse(ValueAt(l, P)), ColVec(v)))
  IN [i \in 1..NRows(P) |-> [j \in 1..NCols(P) |->
        IF IsParamEntry(l, i, j)
        THEN RNeg(MMul(MTranspose(w), MMul(DM(l, i, j), w))[1][1])
        ELSE R(0)]]

QuadForm(l, v) == MMul(MTranspose(ColVec(v)), MMul(MInverse(ValueAt(l, Param(l))), ColVec(v)))[1][1]

\* degree of homogeneity of M in P (0 = not homogeneous)
Degree(l) ==
  CASE l.cls \in ScalarClasses \cup VectorClasses \cup DenseClasses -> 1
    [] l.cls \in TriClasses \cup ProductClasses -> 2
    [] OTHER -> 0

\* sum_ij P_ij * G_ij
RECURSIVE ContractRow(_, _, _, _)
ContractRow(P, G, i, j) == IF j = 0 THEN R(0) ELSE QAdd(QMul(P[i][j], G[i][j]), ContractRow(P, G, i, j - 1))
RECURSIVE ContractAll(_, _, _)
ContractAll(P, G, i) == IF i = 0 THEN R(0) ELSE QAdd(ContractRow(P, G, i, NCols(P)), ContractAll(P, G, i - 1))
Contract(P, G) == ContractAll(P, G, NRows(P))

\* the inverse of a scaled-identity / diagonal / dense definite matrix is an object of the same class whose
\* parameter is the inverse parameter (and which internally holds the transposed inverse factor): its gradients
\* are those of the class at that parameter
InvertibleInClass(l) == l.cls \in ScalarClasses \cup VectorClasses \cup DenseClasses
InvRec(l) ==
  CASE l.cls \in ScalarClasses -> [l EXCEPT !.scalar = QDiv(R(1), l.scalar)]
    [] l.cls \in VectorClasses -> [l EXCEPT !.p1 = << [i \in 1..Len(l.p1[1]) |-> QDiv(R(1), l.p1[1][i])] >>]
    [] l.cls \in DenseClasses -> [l EXCEPT !.p1 = MInverse(l.p1)]

VARIABLES leaf, derived
Init == leaf \in GradLeaves /\ derived \in {FALSE, TRUE} /\ (derived => InvertibleInClass(Lf(leaf)))
Next == UNCHANGED <<leaf, derived>>
Spec == Init /\ [][Next]_<<leaf, derived>>

L == IF derived THEN InvRec(Lf(leaf)) ELSE Lf(leaf)
IsBlock == L.cls \in BlockClasses
Size(l) == NRows(RecValue(l))

\* Euler: for M homogeneous of degree d in P,  <P, grad log|det|> = d n  and  <P, grad Q> = -d Q
EulerLogDet == (~IsBlock /\ Degree(L) > 0) =>
                 Contract(Param(L), GradLogDet(L)) = R(Degree(L) * Size(L))
EulerQuad == (~IsBlock /\ Degree(L) > 0) =>
                 Contract(Param(L), GradQuad(L, TestVec(Size(L)))) = QMul(R(-Degree(L)), QuadForm(L, TestVec(Size(L))))
\* a unit perturbation of a parameter entry outside the used triangle does not change the matrix
UnusedTriangleInert ==
  (~IsBlock /\ L.cls \in TriClasses) =>
     \A i, j \in 1..NRows(L.p1) : ~IsParamEntry(L, i, j) =>
        ValueAt(L, Bump(Param(L), i, j, R(1))) = ValueAt(L, Param(L))

\* offsets of the blocks of a block-diagonal leaf in the test vector
BlockGrad(n, v) == [gl |-> GradLogDet(Lf(n)), gq |-> GradQuad(Lf(n), v), cls |-> Lf(n).cls]

Export ==
  PrintT(ToJson(
    IF IsBlock
    THEN LET n1 == Size(Lf(L.subs[1])) n2 == Size(Lf(L.subs[2])) v == TestVec(n1 + n2)
         IN [leaf |-> leaf, derived |-> derived, block |-> TRUE, vec |-> v,
             blocks |-> << BlockGrad(L.subs[1], SubSeq(v, 1, n1)), BlockGrad(L.subs[2], SubSeq(v, n1 + 1, n1 + n2)) >>]
    ELSE [leaf |-> leaf, derived |-> derived, block |-> FALSE, vec |-> TestVec(Size(L)),
          blocks |-> << [gl |-> GradLogDet(L), gq |-> GradQuad(L, TestVec(Size(L))), cls |-> L.cls] >>]))
=============================================================================
