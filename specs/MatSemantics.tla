----------------------------- MODULE MatSemantics -----------------------------
(***************************************************************************)
(* Exact rational semantics of the matrix classes of mici/matrices.py:     *)
(* the documented meaning of every constructor (LeafValue / RecValue) and   *)
(* what the class hierarchy promises about its objects.  Shared by          *)
(* Matrices.tla (C10, C19) and MatGrad.tla (C11).                           *)
(***************************************************************************)
EXTENDS Integers, Sequences, FiniteSets, TLC, RatMat, MatLeaves

LeafNames == DOMAIN Leaves
Lf(n) == Leaves[n]

Tri(m, lower) == [i \in 1..NRows(m) |-> [j \in 1..NCols(m) |->
                     IF (lower /\ j <= i) \/ (~lower /\ j >= i) THEN m[i][j] ELSE R(0)]]

\* documented meaning of every class, for a constructor record l (sub-matrices are referred to by leaf name)
RECURSIVE RecValue(_)
LeafValue(n) == RecValue(Lf(n))
RecValue(l) ==
  LET c == l.cls IN
  CASE c = "IdentityMatrix" -> MIdentity(l.size)
    [] c \in {"ScaledIdentityMatrix", "PositiveScaledIdentityMatrix"} -> MScale(MIdentity(l.size), l.scalar)
    [] c \in {"DiagonalMatrix", "PositiveDiagonalMatrix"} -> MDiag(l.p1[1])
    [] c \in {"DenseSquareMatrix", "DenseSymmetricMatrix", "OrthogonalMatrix",
              "DenseDefiniteMatrix", "DensePositiveDefiniteMatrix", "DenseRectangularMatrix"} -> l.p1
    \* triangular classes use only the named triangle of the array they are given
    [] c = "TriangularMatrix" -> Tri(l.p1, l.lower)
    [] c = "InverseTriangularMatrix" -> MInverse(Tri(l.p1, l.lower))
    [] c \in {"TriangularFactoredDefiniteMatrix", "TriangularFactoredPositiveDefiniteMatrix"} ->
         MScale(MMul(Tri(l.p1, l.lower), MTranspose(Tri(l.p1, l.lower))), R(l.sign))
    [] c = "DensePositiveDefiniteProductMatrix" -> MMul(l.p1, MMul(l.p2, MTranspose(l.p1)))
    [] c = "ScaledOrthogonalMatrix" -> MScale(l.p1, l.scalar)
    [] c \in {"EigendecomposedSymmetricMatrix", "EigendecomposedPositiveDefiniteMatrix"} ->
         MMul(l.p1, MMul(MDiag(l.p2[1]), MTranspose(l.p1)))
    [] c \in {"SquareBlockDiagonalMatrix", "SymmetricBlockDiagonalMatrix", "PositiveDefiniteBlockDiagonalMatrix"} ->
         MBlockDiag(LeafValue(l.subs[1]), LeafValue(l.subs[2]))
    [] c = "BlockRowMatrix" ->
         LET a == LeafValue(l.subs[1]) b == LeafValue(l.subs[2])
         IN [i \in 1..NRows(a) |-> a[i] \o b[i]]
    [] c = "BlockColumnMatrix" -> LeafValue(l.subs[1]) \o LeafValue(l.subs[2])
    [] c \in {"SquareLowRankUpdateMatrix", "SymmetricLowRankUpdateMatrix", "PositiveDefiniteLowRankUpdateMatrix"} ->
         \* square + sign * left @ inner @ right   (subs: left factor, right factor (or left^T), square, inner)
         LET u == LeafValue(l.subs[1])
             v == IF c = "SquareLowRankUpdateMatrix" THEN LeafValue(l.subs[2]) ELSE MTranspose(u)
             a == LeafValue(l.subs[3])
             k == LeafValue(l.subs[4])
         IN MAdd(a, MScale(MMul(u, MMul(k, v)), R(l.sign)))

\* what the class hierarchy promises about an object of class c
IsInvertibleClass(c) == c \notin {"DenseRectangularMatrix", "BlockRowMatrix", "BlockColumnMatrix"}
IsSymmetricClass(c) ==
  c \in {"IdentityMatrix", "ScaledIdentityMatrix", "PositiveScaledIdentityMatrix", "DiagonalMatrix",
         "PositiveDiagonalMatrix", "TriangularFactoredDefiniteMatrix", "TriangularFactoredPositiveDefiniteMatrix",
         "DenseDefiniteMatrix", "DensePositiveDefiniteMatrix", "DensePositiveDefiniteProductMatrix",
         "DenseSymmetricMatrix", "EigendecomposedSymmetricMatrix", "EigendecomposedPositiveDefiniteMatrix",
         "SymmetricBlockDiagonalMatrix", "PositiveDefiniteBlockDiagonalMatrix", "SymmetricLowRankUpdateMatrix",
         "PositiveDefiniteLowRankUpdateMatrix"}
IsPosDefClass(c) ==
  c \in {"IdentityMatrix", "PositiveScaledIdentityMatrix", "PositiveDiagonalMatrix",
         "TriangularFactoredPositiveDefiniteMatrix", "DensePositiveDefiniteMatrix",
         "DensePositiveDefiniteProductMatrix", "EigendecomposedPositiveDefiniteMatrix",
         "PositiveDefiniteBlockDiagonalMatrix", "PositiveDefiniteLowRankUpdateMatrix"}

Facts(n) == [inv |-> IsInvertibleClass(Lf(n).cls), sym |-> IsSymmetricClass(Lf(n).cls), pd |-> IsPosDefClass(Lf(n).cls)]
=============================================================================
