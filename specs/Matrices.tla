------------------------------- MODULE Matrices -------------------------------
(***************************************************************************)
(* Structured matrix expressions of mici/matrices.py with EXACT rational   *)
(* semantics (C10) and the order of lazy attribute accesses (C19).         *)
(*                                                                          *)
(* A leaf is a constructor call: class, options and parameter matrices     *)
(* (module MatLeaves, generated from specs/matrix_params.json, which is    *)
(* also what the harness builds the real objects from).  LeafValue gives   *)
(* the documented meaning of each class in exact arithmetic.  A program is *)
(* a leaf followed by a sequence of operations                              *)
(*    T, inv, neg, scale by 2, scale by -1/2, divide by 4, sqrt,            *)
(*    left / right product with another leaf,                               *)
(* and Val(program) its exact value.  TLC enumerates all programs up to    *)
(* the depth bound, checks algebraic sanity invariants on the exact values  *)
(* and exports each program with its value and the structure the class      *)
(* hierarchy promises for the result.                                        *)
(*                                                                          *)
(* Mode "access": a single leaf and an arbitrary order of lazy attribute    *)
(* accesses; the abstract value never changes, so every access must show    *)
(* the same value whatever was materialised before.                         *)
(***************************************************************************)
EXTENDS Integers, Sequences, FiniteSets, TLC, Json, MatSemantics

CONSTANTS Mode,        \* "programs" | "access"
          MaxOps,
          Partners,    \* leaves offered as product partners
          StartLeaves, \* leaves programs start from
          Attrs        \* attribute names for access orders

Two == R(2)
MinusHalf == <<-1, 2>>
Quarter == <<1, 4>>

VARIABLES leaf,     \* starting leaf of the program
          ops,      \* sequence of operations applied so far
          val,      \* exact value of the program
          facts,    \* promised structure of the result
          seenVals  \* access mode: values shown by the accesses so far

vars == <<leaf, ops, val, facts, seenVals>>

Init ==
  /\ leaf \in StartLeaves
  /\ ops = <<>>
  /\ val = LeafValue(leaf)
  /\ facts = Facts(leaf)
  /\ seenVals = <<>>

Sq(m) == MIsSquare(m)

Unary(op) ==
  /\ CASE op = "T" -> /\ val' = MTranspose(val) /\ facts' = facts
       [] op = "inv" -> /\ facts.inv /\ val' = MInverse(val) /\ facts' = facts
       [] op = "neg" -> /\ val' = MScale(val, R(-1)) /\ facts' = [facts EXCEPT !.pd = FALSE]
       [] op = "scale2" -> /\ val' = MScale(val, Two) /\ facts' = facts
       [] op = "scalemh" -> /\ val' = MScale(val, MinusHalf) /\ facts' = [facts EXCEPT !.pd = FALSE]
       [] op = "div4" -> /\ val' = MScale(val, Quarter) /\ facts' = facts
  /\ ops' = Append(ops, <<op, "">>)

\* products with a leaf: the result is a (Square / Invertible) MatrixProduct
Product(side, n) ==
  LET b == LeafValue(n) IN
  /\ IF side = "l" THEN NCols(b) = NRows(val) ELSE NCols(val) = NRows(b)
  /\ val' = IF side = "l" THEN MMul(b, val) ELSE MMul(val, b)
  /\ facts' = [inv |-> facts.inv /\ Facts(n).inv /\ Sq(val) /\ Sq(b) /\ NRows(b) = NRows(val), sym |-> FALSE, pd |-> FALSE]
  /\ ops' = Append(ops, <<IF side = "l" THEN "matmul_l" ELSE "matmul_r", n>>)

ProgramStep ==
  /\ Mode = "programs" /\ Len(ops) < MaxOps
  /\ \/ \E op \in {"T", "inv", "neg", "scale2", "scalemh", "div4"} : Unary(op)
     \/ \E side \in {"l", "r"}, n \in Partners : Product(side, n)
  /\ UNCHANGED <<leaf, seenVals>>

\* access mode: reading a lazily materialised attribute shows (a function of) the value and
\* leaves the abstract value untouched
AccessStep ==
  /\ Mode = "access" /\ Len(ops) < MaxOps
  /\ \E a \in Attrs :
       /\ (a \in {"inv", "log_abs_det"} => facts.inv)
       /\ (a \in {"eigval", "eigvec"} => facts.sym)
       /\ (a = "sqrt" => facts.pd)
       /\ ops' = Append(ops, <<a, "">>)
       /\ seenVals' = Append(seenVals, val)
  /\ UNCHANGED <<leaf, val, facts>>

Next == ProgramStep \/ AccessStep
Spec == Init /\ [][Next]_vars

-----------------------------------------------------------------------------
\* algebraic sanity of the exact semantics, on every enumerated program
InverseIsInverse == (facts.inv /\ Sq(val)) => MMul(val, MInverse(val)) = MIdentity(NRows(val))
PromisedSymmetric == facts.sym => MIsSymmetric(val)
PromisedPosDef == facts.pd => MIsPosDef(val)
PromisedInvertible == facts.inv => (Sq(val) /\ MDet(val) # R(0))
\* C19: the abstract value of an object never changes, whatever is accessed in whatever order
ValueImmutable == \A i \in 1..Len(seenVals) : seenVals[i] = LeafValue(leaf)

Exportable == (Mode = "programs") \/ (Mode = "access" /\ Len(ops) = MaxOps)
PrintProgram ==
  Exportable => PrintT(ToJson([leaf |-> leaf, ops |-> ops, val |-> val, facts |-> facts,
                               det |-> IF Sq(val) /\ NRows(val) <= 3 THEN MDet(val) ELSE R(0),
                               inverse |-> IF facts.inv /\ Sq(val) THEN MInverse(val) ELSE << >>]))
=============================================================================
