------------------------------- MODULE Momentum -------------------------------
(***************************************************************************)
(* Momentum transitions (mici/transitions.py, C08).  The momentum law is   *)
(* tracked exactly: a momentum is a linear combination  a * p0 + sum_i     *)
(* b_i * L z_i  of the initial momentum p0 (law N(0, M), M = L L^T) and    *)
(* independent standard normal draws z_i; its covariance is                 *)
(* (a^2 + sum b_i^2) * M.  Refresh coefficients are Pythagorean rationals   *)
(* so that sqrt(1 - c^2) is rational.                                        *)
(*   IndependentMomentumTransition      p' = L z                            *)
(*   CorrelatedMomentumTransition(c)    p' = sqrt(1 - c^2) p + c L z        *)
(*      c = 1 or p = None : full refresh;  c = 0 : unchanged, no draw        *)
(***************************************************************************)
EXTENDS Integers, Sequences, FiniteSets, TLC, Json, Rat

CONSTANTS Coeffs,     \* set of <<c, sqrt(1 - c^2)>> pairs of rationals, e.g. <<<<3,5>>, <<4,5>>>>
          MaxSteps

VARIABLES hasMom,     \* FALSE: state.mom is None
          a,          \* coefficient of the initial momentum p0
          b,          \* sequence of coefficients of the draws z_1, z_2, ...
          hist        \* sequence of transitions applied: <<kind, c>>

vars == <<hasMom, a, b, hist>>

Init == /\ hasMom \in BOOLEAN /\ a = (IF hasMom THEN R(1) ELSE R(0)) /\ b = <<>>
        /\ hist = << <<(IF hasMom THEN "init-mom" ELSE "init-none"), R(0)>> >>

Scale(seq, r) == [i \in 1..Len(seq) |-> RMul(seq[i], r)]

Independent ==
  /\ hasMom' = TRUE /\ a' = R(0)
  /\ b' = Append(Scale(b, R(0)), R(1))
  /\ hist' = Append(hist, <<"independent", R(1)>>)

Correlated(cp) ==
  LET c == cp[1] s == cp[2] IN
  /\ hist' = Append(hist, <<"correlated", c>>)
  /\ IF ~hasMom \/ c = R(1)
     THEN /\ hasMom' = TRUE /\ a' = R(0) /\ b' = Append(Scale(b, R(0)), R(1))     \* full refresh, one draw
     ELSE IF c = R(0)
     THEN UNCHANGED <<hasMom, a, b>>                                                \* no draw at all
     ELSE /\ hasMom' = hasMom /\ a' = RMul(a, s) /\ b' = Append(Scale(b, s), c)     \* Crank-Nicolson, one draw

Next == /\ Len(hist) < MaxSteps + 1
        /\ \/ Independent
           \/ \E cp \in Coeffs : Correlated(cp)
Spec == Init /\ [][Next]_vars

-----------------------------------------------------------------------------
RECURSIVE SumSq(_)
SumSq(seq) == IF seq = <<>> THEN R(0) ELSE RAdd(RMul(Head(seq), Head(seq)), SumSq(Tail(seq)))
Variance == RAdd(RMul(a, a), SumSq(b))

\* every coefficient pair really is (c, sqrt(1 - c^2)) with c in [0, 1]
CoeffsPythagorean == \A cp \in Coeffs : RAdd(RMul(cp[1], cp[1]), RMul(cp[2], cp[2])) = R(1)
                                         /\ RLe(R(0), cp[1]) /\ RLe(cp[1], R(1))

\* C08: the Gaussian momentum law N(0, M) is mapped to itself by every transition
LawInvariant == hasMom => Variance = R(1)

\* number of standard-normal draws consumed = number of transitions that are not "c = 0 with a momentum"
DrawsConsumed == Len(b)

PrintLeaf == Len(hist) = MaxSteps + 1 => PrintT(ToJson([hist |-> hist, a |-> a, b |-> b]))
=============================================================================
