------------------------------- MODULE Sampler -------------------------------
(***************************************************************************)
(* MarkovChainMonteCarloMethod.sample_chains (mici/samplers.py): stages,   *)
(* chains, row offsets, per-chain random streams, adapters, the worker     *)
(* pool with its chain-argument queue and iteration queue, the parent's    *)
(* progress loop, and keyboard interrupts.                                  *)
(*                                                                          *)
(* Values are abstracted to ids: the state of chain c after its k-th       *)
(* iteration (counted over the whole run) is the pair <<k, r>> where r is  *)
(* the position in chain c's random stream after that iteration (one draw  *)
(* per iteration).  A transition parameter is abstracted to its provenance *)
(* (user default / adapter initialisation / in-stage update / finalised by *)
(* stage s).  Row value 0 is the array's fill value.                        *)
(*                                                                          *)
(* Configurations (module SamplerConsts, generated): a sequence SCfgs of    *)
(* records [nchain, nproc (0 = sequential, >0 = workers), stages, intr,     *)
(* initfail].  initfail = [stage, chain]: the initialisation of an adapter   *)
(* fails (AdaptationError) for that chain in that stage: documented as a     *)
(* non-fatal error -- the chain is dropped, the other chains carry on.       *)
(***************************************************************************)
EXTENDS Integers, Sequences, FiniteSets, TLC, Json, SamplerConsts

Adapters == {"fast", "slow"}
MinOf(S) == CHOOSE x \in S : \A y \in S : x <= y
MaxOf(S) == CHOOSE x \in S : \A y \in S : x >= y
SortedSeq(S) == [i \in 1..Cardinality(S) |-> CHOOSE x \in S : Cardinality({y \in S : y < x}) = i - 1]

\* ---- static helpers over a configuration -----------------------------------
NStages(cf) == Len(cf.stages)
Stage(cf, s) == cf.stages[s]
Recorded(st) == st.traced \/ st.stats            \* rows advance for such stages

RECURSIVE SumRec(_, _)
SumRec(cf, s) == IF s = 0 THEN 0
                 ELSE SumRec(cf, s - 1) + (IF Recorded(Stage(cf, s)) THEN Stage(cf, s).n ELSE 0)
RECURSIVE SumAll(_, _)
SumAll(cf, s) == IF s = 0 THEN 0 ELSE SumAll(cf, s - 1) + Stage(cf, s).n

NRows(cf) == cf.nrows
Chains(cf) == 1..cf.nchain
Workers(cf) == 1..cf.nproc
NoIntr(cf) == cf.intr.stage = 0

User == [t |-> "user", s |-> 0, c |-> 0, n |-> 0]
InitP(c) == [t |-> "init", s |-> 0, c |-> c, n |-> 0]
UpdP(c, n) == [t |-> "upd", s |-> 0, c |-> c, n |-> n]
FinP(s) == [t |-> "fin", s |-> s, c |-> 0, n |-> 0]

VARIABLES
  ci,        \* configuration index
  si,        \* current stage (1-based); NStages + 1 when all stages are done
  phase,     \* "start" | "run" | "collect" | "finalize" | "advance" | "returned"
  offset,    \* sampling_index_offset
  cs,        \* cs[c] = <<k, r>> : parent's chain_states entry for chain c
  have,      \* set of chains present in the parent's chain_states list
  rngp,      \* rngp[c] : position of the parent's generator object for chain c
  param,     \* param[a] : provenance of the transition parameter adapted by adapter a (parent copy)
  tr, sr,    \* tr[c][row], sr[c][row] : trace / statistics rows; 0 = fill, else <<k, r, pfast, pslow>>
  \* --- per-stage run state ---
  cur,       \* sequential mode: chain currently being run (0 when none)
  it,        \* it[c] : iterations completed by chain c in this stage
  wst,       \* wst[c] : working state <<k, r>> of chain c inside _sample_chain
  ad,        \* ad[c][a] : number of updates of adapter a for chain c this stage (-1 = no adapter state)
  cstat,     \* cstat[c] : "todo" | "running" | "done" | "interrupted"
  wparam,    \* wparam[p][a] : transition parameter as seen in process p (0 = parent)
  \* --- worker pool ---
  chainq,    \* sequence of chains waiting in the chain-argument queue
  iterq,     \* iteration queue, summarised: [fin |-> completion messages sent, intr |-> BOOLEAN]
             \* (progress messages only move progress bars; the parent's loop ends when it has
             \*  seen nchain completion messages, or an interrupt message)
  wk,        \* wk[w] = [st |-> "idle"|"busy"|"exited", c |-> chain]
  outs,      \* chains whose outputs were returned by some worker
  parent,    \* "loop" | "broke" | "done"
  dropped,   \* chains dropped because an adapter could not be initialised
  interrupted, \* TRUE once the (single) interrupt has fired
  stagesRun, \* sequence of stage indices that were started (history)
  finals     \* returned final states (sequence of <<c, k, r>>) once phase = "returned"

vars == <<ci, si, phase, offset, cs, have, rngp, param, tr, sr, cur, it, wst, ad, cstat, wparam,
          chainq, iterq, wk, outs, parent, dropped, interrupted, stagesRun, finals>>

CF == SCfgs[ci]
ST == Stage(CF, si)
Seq_(cf) == cf.nproc = 0
MaxW == 3

ZeroRows(cf) == [c \in 1..3 |-> [r \in 1..cf.nrows |-> <<0, 0, User, User>>]]

Init ==
  /\ ci \in SCfgSet
  /\ si = 1 /\ phase = "start" /\ offset = 0
  /\ cs = [c \in 1..3 |-> <<0, 0>>]
  /\ have = Chains(SCfgs[ci])
  /\ rngp = [c \in 1..3 |-> 0]
  /\ param = [a \in Adapters |-> User]
  /\ tr = ZeroRows(SCfgs[ci]) /\ sr = ZeroRows(SCfgs[ci])
  /\ cur = 0
  /\ it = [c \in 1..3 |-> 0]
  /\ wst = [c \in 1..3 |-> <<0, 0>>]
  /\ ad = [c \in 1..3 |-> [a \in Adapters |-> -1]]
  /\ cstat = [c \in 1..3 |-> "todo"]
  /\ wparam = [p \in 0..MaxW |-> [a \in Adapters |-> User]]
  /\ chainq = <<>> /\ iterq = [fin |-> 0, intr |-> FALSE]
  /\ wk = [w \in 1..MaxW |-> [st |-> "exited", c |-> 0]]
  /\ outs = {}
  /\ parent = "done"
  /\ interrupted = FALSE /\ dropped = {}
  /\ stagesRun = <<>>
  /\ finals = <<>>

\* ---- the stage loop of sample_chains ---------------------------------------
\* A stage without iterations changes nothing (no adapter initialisation / finalisation).
StartStage ==
  /\ phase = "start"
  /\ si <= NStages(CF)
  /\ stagesRun' = Append(stagesRun, si)
  /\ IF ST.n = 0 \/ have = {}
     THEN /\ phase' = "advance"
          /\ UNCHANGED <<cur, it, wst, ad, cstat, wparam, chainq, iterq, wk, outs, parent>>
     ELSE /\ phase' = "run"
          /\ it' = [c \in 1..3 |-> 0]
          /\ wst' = cs
          /\ ad' = [c \in 1..3 |-> [a \in Adapters |-> -1]]
          /\ cstat' = [c \in 1..3 |-> IF c \in have THEN "todo" ELSE "done"]
          /\ IF Seq_(CF)
             THEN /\ cur' = MinOf(have)
                  /\ wparam' = [wparam EXCEPT ![0] = param]
                  /\ UNCHANGED <<chainq, iterq, wk, outs, parent>>
             ELSE \* chain arguments (incl. pickled generators) queued; common kwargs pickled per worker
                  /\ cur' = 0
                  /\ chainq' = SortedSeq(have)
                  /\ iterq' = [fin |-> 0, intr |-> FALSE]
                  /\ wk' = [w \in 1..MaxW |-> IF w \in Workers(CF)
                                               THEN [st |-> "idle", c |-> 0]
                                               ELSE [st |-> "exited", c |-> 0]]
                  /\ outs' = {}
                  /\ wparam' = [p \in 0..MaxW |-> param]
                  /\ parent' = "loop"
  /\ UNCHANGED <<ci, si, offset, cs, have, rngp, param, tr, sr, dropped, interrupted, finals>>

\* does the interrupt fire in chain c's iteration i (1-based, within stage si) at this site?
\* intr.chain = 0 is a process-group interrupt (Ctrl-C): it fires in EVERY chain that reaches the point
Fires(c, i, site) ==
  /\ CF.intr.stage = si /\ CF.intr.k = i /\ CF.intr.site = site
  /\ \/ (CF.intr.chain = c /\ ~interrupted)
     \/ CF.intr.chain = 0

ActiveAd == ST.adapters     \* subset of Adapters active in the current stage

\* adapter.initialize for every active adapter (start of _sample_chain), in process p
InitFails(c) == CF.initfail.stage = si /\ CF.initfail.chain = c /\ ActiveAd # {}

InitChain(c, p) ==
  /\ cstat[c] = "todo"
  /\ IF InitFails(c)
     THEN \* AdaptationError: logged, the chain is dropped, nothing else changes
          /\ cstat' = [cstat EXCEPT ![c] = "dropped"]
          /\ dropped' = dropped \cup {c}
          /\ UNCHANGED <<ad, wparam>>
     ELSE /\ cstat' = [cstat EXCEPT ![c] = "running"]
          /\ ad' = [ad EXCEPT ![c] = [a \in Adapters |-> IF a \in ActiveAd THEN 0 ELSE -1]]
          /\ wparam' = [wparam EXCEPT ![p] = [a \in Adapters |-> IF a \in ActiveAd THEN InitP(c) ELSE @[a]]]
          /\ UNCHANGED dropped

Row(c) == it[c] + 1 + offset

\* one chain iteration in process p: transition, adapter updates, statistics row, trace row
Iterate(c, p) ==
  /\ cstat[c] = "running"
  /\ it[c] < ST.n
  /\ LET i == it[c] + 1
         used == wparam[p]
         new == <<wst[c][1] + 1, wst[c][2] + 1>>
         val == <<new[1], new[2], used["fast"], used["slow"]>>
     IN IF Fires(c, i, "trans")
        THEN \* interrupt inside transition.sample: nothing of this iteration is recorded
             /\ interrupted' = TRUE
             /\ cstat' = [cstat EXCEPT ![c] = "interrupted"]
             /\ UNCHANGED <<wst, ad, wparam, sr, tr, it>>
        ELSE /\ wst' = [wst EXCEPT ![c] = new]
             /\ ad' = [ad EXCEPT ![c] = [a \in Adapters |-> IF a \in ActiveAd THEN @[a] + 1 ELSE @[a]]]
             /\ wparam' = [wparam EXCEPT ![p] =
                             [a \in Adapters |-> IF a \in ActiveAd THEN UpdP(c, ad[c][a] + 1) ELSE @[a]]]
             /\ sr' = IF ST.stats THEN [sr EXCEPT ![c][Row(c)] = val] ELSE sr
             /\ IF Fires(c, i, "trace")
                THEN \* interrupt inside the trace function: transition done, trace row not written
                     /\ interrupted' = TRUE
                     /\ cstat' = [cstat EXCEPT ![c] = "interrupted"]
                     /\ UNCHANGED <<tr, it>>
                ELSE /\ tr' = IF ST.traced THEN [tr EXCEPT ![c][Row(c)] = val] ELSE tr
                     /\ it' = [it EXCEPT ![c] = i]
                     /\ cstat' = [cstat EXCEPT ![c] = IF i = ST.n THEN "done" ELSE "running"]
                     /\ UNCHANGED interrupted

\* ---- sequential mode ---------------------------------------------------------
SeqInit ==
  /\ phase = "run" /\ Seq_(CF) /\ cur \in Chains(CF) /\ cstat[cur] = "todo"
  /\ InitChain(cur, 0)
  /\ UNCHANGED <<ci, si, phase, offset, cs, have, rngp, param, tr, sr, cur, it, wst, chainq, iterq, wk, outs,
                 parent, interrupted, stagesRun, finals>>

SeqIter ==
  /\ phase = "run" /\ Seq_(CF) /\ cur \in Chains(CF)
  /\ Iterate(cur, 0)
  /\ UNCHANGED <<ci, si, phase, offset, cs, have, rngp, param, cur, chainq, iterq, wk, outs, parent,
                 dropped, stagesRun, finals>>

\* chain finished (or interrupted): its state goes to chain_outputs; the generator object is
\* shared by reference, so the parent's stream position follows
SeqNext ==
  /\ phase = "run" /\ Seq_(CF) /\ cur \in Chains(CF)
  /\ cstat[cur] \in {"done", "interrupted", "dropped"}
  /\ cs' = [cs EXCEPT ![cur] = wst[cur]]
  /\ rngp' = [rngp EXCEPT ![cur] = wst[cur][2]]
  /\ IF cstat[cur] = "interrupted" \/ cur = MaxOf(have)
     THEN /\ phase' = "collect"
          \* only chains started so far are returned; dropped chains are not
          /\ have' = {c \in have : c <= cur} \ dropped
          /\ cur' = 0
     ELSE /\ cur' = MinOf({c \in have : c > cur})
          /\ UNCHANGED <<phase, have>>
  /\ UNCHANGED <<ci, si, offset, param, tr, sr, it, wst, ad, cstat, wparam, chainq, iterq, wk, outs, parent,
                 dropped, interrupted, stagesRun, finals>>

\* ---- worker pool --------------------------------------------------------------
\* idle workers are indistinguishable: only the lowest-numbered idle worker moves (symmetry breaking)
LowestIdle(w) == wk[w].st = "idle" /\ \A v \in Workers(CF) : v < w => wk[v].st # "idle"

WorkerTake(w) ==
  /\ phase = "run" /\ ~Seq_(CF) /\ w \in Workers(CF)
  /\ LowestIdle(w)
  /\ IF chainq = <<>>
     THEN /\ wk' = [wk EXCEPT ![w].st = "exited"]
          /\ UNCHANGED <<chainq, cstat, ad, wparam, dropped, iterq>>
     ELSE /\ chainq' = Tail(chainq)
          /\ InitChain(Head(chainq), w)
          /\ IF InitFails(Head(chainq))
             THEN \* None is put on the iteration queue (counts as a completion); the worker carries on
                  /\ wk' = wk /\ iterq' = [iterq EXCEPT !.fin = @ + 1]
             ELSE /\ wk' = [wk EXCEPT ![w].st = "busy", ![w].c = Head(chainq)] /\ iterq' = iterq
  /\ UNCHANGED <<ci, si, phase, offset, cs, have, rngp, param, tr, sr, cur, it, wst, outs, parent,
                 interrupted, stagesRun, finals>>

WorkerIter(w) ==
  /\ phase = "run" /\ ~Seq_(CF) /\ w \in Workers(CF)
  /\ wk[w].st = "busy" /\ cstat[wk[w].c] = "running"
  /\ Iterate(wk[w].c, w)
  \* the message of the last iteration is the chain's completion message
  /\ iterq' = IF cstat'[wk[w].c] = "done" THEN [iterq EXCEPT !.fin = @ + 1] ELSE iterq
  /\ UNCHANGED <<ci, si, phase, offset, cs, have, rngp, param, cur, chainq, wk, outs, parent, dropped, stagesRun, finals>>

WorkerDone(w) ==
  /\ phase = "run" /\ ~Seq_(CF) /\ w \in Workers(CF)
  /\ wk[w].st = "busy" /\ cstat[wk[w].c] \in {"done", "interrupted"}
  /\ outs' = outs \cup {wk[w].c}
  /\ IF cstat[wk[w].c] = "interrupted"
     THEN \* the exception is put on the iteration queue and the worker stops taking chains
          /\ wk' = [wk EXCEPT ![w].st = "exited", ![w].c = 0]
          /\ iterq' = [iterq EXCEPT !.intr = TRUE]
     ELSE /\ wk' = [wk EXCEPT ![w].st = "idle", ![w].c = 0]
          /\ UNCHANGED iterq
  /\ UNCHANGED <<ci, si, phase, offset, cs, have, rngp, param, tr, sr, cur, it, wst, ad, cstat, wparam,
                 chainq, parent, dropped, interrupted, stagesRun, finals>>

\* The parent's progress loop leaves when it has received an interrupt message, or when it has
\* counted nchain completion messages.  If neither can happen it blocks on the queue for ever
\* (a deadlock of this specification).
ParentExitLoop ==
  /\ phase = "run" /\ ~Seq_(CF) /\ parent = "loop"
  /\ \/ iterq.intr /\ parent' = "broke"
     \/ ~iterq.intr /\ iterq.fin = Cardinality(have) /\ parent' = "done"
  /\ UNCHANGED <<ci, si, phase, offset, cs, have, rngp, param, tr, sr, cur, it, wst, ad, cstat, wparam,
                 chainq, iterq, wk, outs, dropped, interrupted, stagesRun, finals>>

\* results.get(): waits for every worker; outputs sorted by chain index.  The workers' advanced
\* generator states are carried back to the parent's per-chain generators.
ParentCollect ==
  /\ phase = "run" /\ ~Seq_(CF) /\ parent \in {"broke", "done"}
  /\ \A w \in Workers(CF) : wk[w].st = "exited"
  /\ have' = outs
  /\ cs' = [c \in 1..3 |-> IF c \in outs THEN wst[c] ELSE cs[c]]
  /\ rngp' = [c \in 1..3 |-> IF c \in outs THEN wst[c][2] ELSE rngp[c]]
  /\ phase' = "collect"
  /\ UNCHANGED <<ci, si, offset, param, tr, sr, cur, it, wst, ad, cstat, wparam, chainq, iterq, wk, outs, parent,
                 dropped, interrupted, stagesRun, finals>>

\* ---- after the chains of a stage ------------------------------------------------
\* adapters are finalised iff the stage had active adapters (an interrupted stage may be
\* finalised with the partial adapter states or not at all: both are allowed here)
Finalize ==
  /\ phase = "collect"
  /\ phase' = "advance"
  /\ \/ param' = [a \in Adapters |-> IF a \in ActiveAd /\ have # {} THEN FinP(si) ELSE param[a]]
     \/ interrupted /\ param' = param
  /\ UNCHANGED <<ci, si, offset, cs, have, rngp, tr, sr, cur, it, wst, ad, cstat, wparam, chainq, iterq, wk, outs,
                 parent, dropped, interrupted, stagesRun, finals>>

Advance ==
  /\ phase = "advance"
  /\ offset' = offset + (IF Recorded(ST) THEN ST.n ELSE 0)
  /\ IF interrupted \/ si = NStages(CF)
     THEN /\ phase' = "returned"
          /\ finals' = [i \in 1..Cardinality(have) |->
                          LET c == CHOOSE c \in have : Cardinality({d \in have : d < c}) = i - 1
                          IN <<c, cs[c][1], cs[c][2]>>]
          /\ si' = si
     ELSE /\ phase' = "start" /\ si' = si + 1 /\ UNCHANGED finals
  /\ UNCHANGED <<ci, cs, have, rngp, param, tr, sr, cur, it, wst, ad, cstat, wparam, chainq, iterq, wk, outs,
                 parent, dropped, interrupted, stagesRun>>

\* degenerate run without any stage
ReturnEmpty ==
  /\ phase = "start" /\ si > NStages(CF)
  /\ phase' = "returned"
  /\ finals' = [i \in 1..CF.nchain |-> <<i, 0, 0>>]
  /\ UNCHANGED <<ci, si, offset, cs, have, rngp, param, tr, sr, cur, it, wst, ad, cstat, wparam, chainq,
                 iterq, wk, outs, parent, dropped, interrupted, stagesRun>>

Next ==
  \/ StartStage \/ SeqInit \/ SeqIter \/ SeqNext
  \/ \E w \in 1..MaxW : WorkerTake(w) \/ WorkerIter(w) \/ WorkerDone(w)
  \/ ParentExitLoop \/ ParentCollect
  \/ Finalize \/ Advance \/ ReturnEmpty
  \/ (phase = "returned" /\ UNCHANGED vars)      \* terminated: only genuine stuck states deadlock

Spec == Init /\ [][Next]_vars /\ WF_vars(Next)

\* Every action strictly increases this measure, so the state graph is acyclic apart from the
\* terminal self-loop: absence of deadlock (checked by TLC) then implies that every behaviour
\* reaches "returned".  (EventuallyReturns is additionally checked as a liveness property on
\* the small configurations.)
Progress ==
  [][phase # "returned" =>
       \/ si' > si \/ phase' # phase
       \/ \E c \in 1..3 : it'[c] > it[c] \/ cstat'[c] # cstat[c]
       \/ cur' # cur \/ Len(chainq') < Len(chainq)
       \/ \E w \in 1..MaxW : wk'[w] # wk[w]
       \/ parent' # parent]_vars

-----------------------------------------------------------------------------
Returned == phase = "returned"

\* expected id of row r: the iteration (over the whole run) whose post-state it records
RECURSIVE RowIter(_, _, _)
RowIter(cf, s, r) ==      \* r counted within recorded rows, starting from stage s
  IF s > NStages(cf) THEN 0
  ELSE IF Recorded(Stage(cf, s))
       THEN IF r <= Stage(cf, s).n THEN SumAll(cf, s - 1) + r
            ELSE RowIter(cf, s + 1, r - Stage(cf, s).n)
       ELSE RowIter(cf, s + 1, r)
RECURSIVE RowStage(_, _, _)
RowStage(cf, s, r) ==
  IF s > NStages(cf) THEN 0
  ELSE IF Recorded(Stage(cf, s))
       THEN IF r <= Stage(cf, s).n THEN s ELSE RowStage(cf, s + 1, r - Stage(cf, s).n)
       ELSE RowStage(cf, s + 1, r)

\* C13: rows hold, row by row, the state after each recorded iteration; no fill value survives
\* (a chain dropped in stage d has complete rows for the stages before d and fill values from d on,
\*  and is not among the returned final states)
RowsExact ==
  (Returned /\ NoIntr(CF)) =>
    /\ \A c \in Chains(CF) : \A r \in 1..NRows(CF) :
         LET s == RowStage(CF, 1, r) k == RowIter(CF, 1, r)
             gone == c \in dropped /\ s >= CF.initfail.stage IN
         /\ (Stage(CF, s).stats /\ ~gone => sr[c][r][1] = k)
         /\ (Stage(CF, s).traced /\ ~gone => tr[c][r][1] = k)
         /\ (~Stage(CF, s).traced \/ gone => tr[c][r][1] = 0)
         /\ (gone => sr[c][r][1] = 0)
    /\ Len(finals) = CF.nchain - Cardinality(dropped)
    /\ \A i \in 1..Len(finals) :
         /\ finals[i][1] \notin dropped
         /\ finals[i][2] = SumAll(CF, NStages(CF)) /\ finals[i][3] = SumAll(CF, NStages(CF))

\* C14: a stream is never replayed and every row is a function of (chain, iteration) only:
\* the stream position recorded with iteration k is k, in every stage and mode.
NoReplay ==
  \A c \in Chains(CF) : \A r \in 1..NRows(CF) :
     /\ (sr[c][r][1] # 0 => sr[c][r][2] = sr[c][r][1])
     /\ (tr[c][r][1] # 0 => tr[c][r][2] = tr[c][r][1])

StreamsCarried == (phase = "start") => \A c \in have : rngp[c] = cs[c][2]

\* C15: after an interrupt the call returns; completed iterations are recorded as in the
\* uninterrupted run, rows not reached keep their fill value, later stages are not started
PrefixOnInterrupt ==
  (Returned /\ interrupted) =>
    /\ \A i \in 1..Len(stagesRun) : stagesRun[i] <= CF.intr.stage
    /\ \A c \in Chains(CF) : \A r \in 1..NRows(CF) :
         LET s == RowStage(CF, 1, r) k == RowIter(CF, 1, r) IN
         /\ tr[c][r][1] \in {0, k}
         /\ sr[c][r][1] \in {0, k}
         /\ (s > CF.intr.stage => tr[c][r][1] = 0 /\ sr[c][r][1] = 0)
         \* chains other than the interrupted one that ran are complete for the stages run
         /\ (s < CF.intr.stage /\ Stage(CF, s).traced => tr[c][r][1] = k)
    /\ \A i \in 1..Len(finals) : finals[i][2] = finals[i][3]

EventuallyReturns == <>Returned

\* C16: no parameter changes during the main (last, non-adaptive) stage, and the value used
\* there was finalised by the last stage that performed at least one update
LastEffective(cf, a) ==
  LET S == {s \in 1..NStages(cf) : a \in Stage(cf, s).adapters /\ Stage(cf, s).n > 0}
  IN IF S = {} THEN User ELSE FinP(CHOOSE s \in S : \A t \in S : t <= s)

MainFrozen ==
  (Returned /\ NoIntr(CF) /\ NStages(CF) > 0 /\ Stage(CF, NStages(CF)).adapters = {}
     /\ Stage(CF, NStages(CF)).stats) =>
    \A c \in Chains(CF) \ dropped : \A r \in 1..NRows(CF) :
       RowStage(CF, 1, r) = NStages(CF) =>
          /\ sr[c][r][3] = LastEffective(CF, "fast")
          /\ sr[c][r][4] = LastEffective(CF, "slow")

TypeOK ==
  /\ phase \in {"start", "run", "collect", "finalize", "advance", "returned"}
  /\ offset <= NRows(CF)

\* terminal observation for the spec -> code replay
PrintTerminal ==
  Returned => PrintT(ToJson([ci |-> ci, finals |-> finals,
                             tr |-> [c \in Chains(CF) |-> [r \in 1..NRows(CF) |-> tr[c][r]]],
                             sr |-> [c \in Chains(CF) |-> [r \in 1..NRows(CF) |-> sr[c][r]]],
                             param |-> param, stagesRun |-> stagesRun]))
=============================================================================
