----------------------------- MODULE SamplerBars -----------------------------
(***************************************************************************)
(* The progress-display protocol of sample_chains as a refinement of       *)
(* Sampler.tla: every action of the sampler is paired with its effect on   *)
(* the per-chain progress bars (objects of the user's progress_bar_class)  *)
(* and on the stage bar.  Not one of the listed properties -- it extends   *)
(* the specification to the part of the system the user watches while the  *)
(* chains run: "the display never lies".                                   *)
(*                                                                          *)
(*   bar[c] = [on, len, shown, reset]                                       *)
(*     SetSequence  before each stage with iterations (only legal on an     *)
(*                  inactive bar: the real class raises RuntimeError)       *)
(*     Enter/Exit   sequential: around the iterations of the chain;          *)
(*                  parallel: all bars around the parent's progress loop     *)
(*     Update(i)    sequential: synchronously after iteration i;             *)
(*                  parallel: when the parent takes the worker's message     *)
(*                  off the iteration queue (per chain in order, any          *)
(*                  interleaving across chains, arbitrarily late); the first  *)
(*                  message of a chain is update(0) = reset, sent when the    *)
(*                  worker enters its proxy bar                               *)
(*   stagepos     number of updates of the stage bar (one per finished       *)
(*                stage, also for stages without iterations)                 *)
(***************************************************************************)
EXTENDS Sampler

VARIABLES bar, stagepos
bvars == <<bar, stagepos>>
allvars == <<vars, bar, stagepos>>

BarOff == [on |-> FALSE, len |-> 1, shown |-> 0, reset |-> FALSE]

BInit == Init /\ bar = [c \in 1..3 |-> BarOff] /\ stagepos = 0

RunsChains == ST.n > 0 /\ have # {}

\* stage start: sequences are (re)assigned; in parallel mode the parent enters every bar
BStartStage ==
  /\ StartStage
  /\ IF ~RunsChains
     THEN UNCHANGED bvars      \* nothing shown for a stage that runs no chain (the stage bar moves in Advance)
     ELSE /\ \A c \in Chains(CF) : ~bar[c].on           \* sequence setter raises on an active bar
          /\ bar' = [c \in 1..3 |-> IF c \in Chains(CF)
                                     THEN [on |-> ~Seq_(CF), len |-> ST.n, shown |-> 0, reset |-> FALSE]
                                     ELSE bar[c]]
          /\ UNCHANGED stagepos

\* sequential: the bar is entered after the adapters were initialised
BSeqInit ==
  /\ SeqInit
  /\ bar' = IF InitFails(cur) THEN bar ELSE [bar EXCEPT ![cur].on = TRUE, ![cur].shown = 0, ![cur].reset = TRUE]
  /\ UNCHANGED stagepos

\* sequential: update(i) runs when the loop asks for the next item, i.e. right after a complete iteration
BSeqIter ==
  /\ SeqIter
  /\ bar' = [bar EXCEPT ![cur].shown = it'[cur]]
  /\ UNCHANGED stagepos

BSeqNext ==
  /\ SeqNext
  /\ bar' = [bar EXCEPT ![cur].on = FALSE]
  /\ UNCHANGED stagepos

\* parallel: worker actions do not touch the bars (they only enqueue messages)
BWorker(w) ==
  /\ (WorkerTake(w) \/ WorkerIter(w) \/ WorkerDone(w))
  /\ UNCHANGED bvars

\* parallel: the first message of a chain (sent when a worker has initialised the adapters and enters the
\* proxy bar) is update(0), which resets the parent's bar
ParentReset(c) ==
  /\ phase = "run" /\ ~Seq_(CF) /\ parent = "loop"
  /\ c \in Chains(CF) /\ bar[c].on /\ ~bar[c].reset
  /\ cstat[c] \in {"running", "done", "interrupted"}
  /\ bar' = [bar EXCEPT ![c].reset = TRUE, ![c].shown = 0]
  /\ UNCHANGED <<vars, stagepos>>

\* parallel: the parent takes the next progress message of chain c off the queue
ParentShow(c) ==
  /\ phase = "run" /\ ~Seq_(CF) /\ parent = "loop"
  /\ c \in Chains(CF) /\ bar[c].on /\ bar[c].reset
  /\ bar[c].shown < it[c]
  /\ bar' = [bar EXCEPT ![c].shown = @ + 1]
  /\ UNCHANGED <<vars, stagepos>>

\* the loop ends on an interrupt message (messages still queued are never shown) or when it has counted
\* every completion message -- the queue is FIFO, so by then every progress message was shown
BParentExitLoop ==
  /\ ParentExitLoop
  /\ (parent' = "done" => \A c \in have \ dropped : bar[c].reset /\ bar[c].shown = it[c])
  /\ bar' = [c \in 1..3 |-> [bar[c] EXCEPT !.on = FALSE]]      \* ExitStack closes every bar
  /\ UNCHANGED stagepos

BAdvance ==
  /\ Advance
  \* the stage bar moves when the body of the stage loop completes; an interrupted stage returns from inside it
  /\ stagepos' = IF interrupted THEN stagepos ELSE stagepos + 1
  /\ UNCHANGED bar

BOther ==
  /\ (ParentCollect \/ Finalize \/ ReturnEmpty)
  /\ UNCHANGED bvars

BTerminated == phase = "returned" /\ UNCHANGED allvars

BNext ==
  \/ BStartStage \/ BSeqInit \/ BSeqIter \/ BSeqNext
  \/ \E w \in 1..MaxW : BWorker(w)
  \/ \E c \in 1..3 : ParentShow(c) \/ ParentReset(c)
  \/ BParentExitLoop \/ BAdvance \/ BOther
  \/ BTerminated

BSpec == BInit /\ [][BNext]_allvars /\ WF_allvars(BNext)

-----------------------------------------------------------------------------
\* the display never runs ahead of the work done, and never past the announced length
NeverAhead == \A c \in Chains(CF) : bar[c].shown <= it[c] /\ bar[c].shown <= bar[c].len

\* sequential mode: the display is exact between iterations
SeqExact == (Seq_(CF) /\ phase = "run" /\ cur \in Chains(CF) /\ bar[cur].on) => bar[cur].shown = it[cur]

\* a stage that was not interrupted ends with every bar of a surviving chain full
FullWhenDone ==
  (phase \in {"collect", "advance"} /\ ~interrupted /\ RunsChains) =>
     \A c \in have : bar[c].shown = ST.n /\ bar[c].len = ST.n

\* bars are closed whenever the parent is not inside a stage (also after an interrupt)
ClosedOutsideStages == phase \in {"start", "collect", "advance", "returned"} => \A c \in 1..3 : ~bar[c].on

\* an uninterrupted run moves the stage bar once per stage
StageBarCounts == (Returned /\ ~interrupted) => stagepos = NStages(CF)
StageBarNeverAhead == stagepos <= si

\* the refinement does not restrict the sampler: every Sampler behaviour remains possible
\* (checked by TLC as: BSpec implements Spec, and no new deadlock)
SamplerSafety == Init /\ [][Next]_vars
=============================================================================
