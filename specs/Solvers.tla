------------------------------- MODULE Solvers -------------------------------
(***************************************************************************)
(* The iterative solvers of mici/solvers.py as control-flow machines       *)
(* driven by an adversarial environment: at every evaluation of the user's *)
(* constraint function (or fixed-point map) the environment chooses the    *)
(* residual: a signed power of two, zero, NaN, or an exception.            *)
(*                                                                          *)
(* Mock system (1-D): metric 1, |time step| = 2^TE, Jacobian at the         *)
(* previous state 1, Jacobian at the current state 2^JE.  With it           *)
(*    Newton        delta_mu = r * 2^(-JE - TE)   delta_pos = r * 2^(-JE)   *)
(*    quasi-Newton  delta_mu = r * 2^(-TE)        delta_pos = r             *)
(* so every returned quantity is an exact dyadic number, carried as a      *)
(* sequence of terms <<sign, exponent>> (TLC has no reals).                 *)
(* Tolerances are the library defaults expressed as exponent thresholds:   *)
(*    2^e < 1e-9 (constraint_tol) iff e <= -30                              *)
(*    2^e < 1e-8 (position_tol)   iff e <= -27                              *)
(*    2^e > 1e10 (divergence_tol) iff e >= 34                               *)
(***************************************************************************)
EXTENDS Integers, Sequences, FiniteSets, TLC, Json

CONSTANTS Solver,     \* "newton" | "quasi" | "linesearch" | "fpdirect"
          MaxIters, MaxLS,
          JE,         \* exponent of the current-state Jacobian (0 or negative)
          TE,         \* exponent of |time step|
          Alphabet    \* set of environment tokens offered

CTOL == -30
PTOL == -27
DTOL == 34

\* tokens: <<"val", sign, exp>>, <<"zero", 0, 0>>, <<"nan", 0, 0>>, <<"raise", 1, 0>> (ValueError), <<"raise", 2, 0>> (LinAlgError)
IsVal(t) == t[1] = "val"
IsZero(t) == t[1] = "zero"
IsNan(t) == t[1] = "nan"
IsRaise(t) == t[1] = "raise"

Below(t, thr) == IsZero(t) \/ (IsVal(t) /\ t[3] <= thr)      \* |t| < 10^.. threshold
Above(t, thr) == IsVal(t) /\ t[3] >= thr
\* |a| < |b| for residual tokens (NaN compares false)
Less(a, b) == /\ ~IsNan(a) /\ ~IsNan(b)
              /\ \/ (IsZero(a) /\ IsVal(b))
                 \/ (IsVal(a) /\ IsVal(b) /\ a[3] < b[3])

VARIABLES pc, i, ls, script, cur, mu, dpos, stepExp, lastDpos, outcome, poisoned

vars == <<pc, i, ls, script, cur, mu, dpos, stepExp, lastDpos, outcome, poisoned>>

Init ==
  /\ pc = "eval" /\ i = 0 /\ ls = 0 /\ script = <<>> /\ cur = <<"zero", 0, 0>>
  /\ mu = <<>> /\ dpos = <<>> /\ stepExp = 0 /\ lastDpos = <<"zero", 0, 0>>
  /\ outcome = "running" /\ poisoned = FALSE

\* the environment answers an evaluation; once the position is NaN every residual is NaN
Choices == IF poisoned THEN {<<"nan", 0, 0>>} ELSE Alphabet

Term(t, shift) == <<t[2], t[3] + shift>>      \* signed power of two, exponent shifted

DeltaMuShift == IF Solver = "quasi" THEN -TE ELSE -JE - TE
DeltaPosShift == IF Solver = "quasi" THEN 0 ELSE -JE

Fail == /\ outcome' = "ConvergenceError" /\ pc' = "done"
Ret == /\ outcome' = "return" /\ pc' = "done"

\* ---- Newton and quasi-Newton ----------------------------------------------------
\* for i in range(max_iters): constr = system.constr(state); ...
EvalNQ ==
  /\ Solver \in {"newton", "quasi"} /\ pc = "eval"
  /\ IF i = MaxIters
     THEN Fail /\ UNCHANGED <<i, ls, script, cur, mu, dpos, stepExp, lastDpos, poisoned>>
     ELSE \E t \in Choices :
       /\ script' = Append(script, t)
       /\ cur' = t
       /\ IF IsRaise(t)
          THEN \* ValueError / LinAlgError inside the loop -> ConvergenceError
               Fail /\ UNCHANGED <<i, ls, mu, dpos, stepExp, lastDpos, poisoned>>
          ELSE IF IsNan(t) \/ Above(t, DTOL)
          THEN Fail /\ UNCHANGED <<i, ls, mu, dpos, stepExp, lastDpos, poisoned>>
          ELSE IF Below(t, CTOL) /\ (IsZero(t) \/ t[3] + DeltaPosShift <= PTOL)
          THEN Ret /\ UNCHANGED <<i, ls, mu, dpos, stepExp, lastDpos, poisoned>>
          ELSE \* mu += delta_mu ; state.pos -= delta_pos
               /\ mu' = IF IsZero(t) THEN mu ELSE Append(mu, Term(t, DeltaMuShift))
               /\ dpos' = IF IsZero(t) THEN dpos ELSE Append(dpos, <<-t[2], t[3] + DeltaPosShift>>)
               /\ i' = i + 1
               /\ UNCHANGED <<pc, ls, stepExp, lastDpos, outcome, poisoned>>

\* ---- Newton with line search -------------------------------------------------------
\* (the constraint function is a function of the position: at the top of iteration i > 0 the
\*  residual is the one already obtained by the accepted line-search trial, no new evaluation)
EvalLS ==
  /\ Solver = "linesearch" /\ pc = "eval"
  /\ IF i = MaxIters
     THEN Fail /\ UNCHANGED <<i, ls, script, cur, mu, dpos, stepExp, lastDpos, poisoned>>
     ELSE \E t \in (IF i = 0 THEN Choices ELSE {cur}) :
       /\ script' = IF i = 0 THEN Append(script, t) ELSE script
       /\ cur' = t
       /\ IF IsRaise(t)
          THEN Fail /\ UNCHANGED <<i, ls, mu, dpos, stepExp, lastDpos, poisoned>>
          ELSE IF i > 0 /\ (IsNan(t) \/ Above(t, DTOL))
          THEN Fail /\ UNCHANGED <<i, ls, mu, dpos, stepExp, lastDpos, poisoned>>
          ELSE IF Below(t, CTOL) /\ (i = 0 \/ IsZero(lastDpos)
                                      \/ (IsVal(lastDpos) /\ lastDpos[3] + stepExp <= PTOL))
          THEN Ret /\ UNCHANGED <<i, ls, mu, dpos, stepExp, lastDpos, poisoned>>
          ELSE \* start the line search with step size 1
               /\ pc' = "search" /\ ls' = 0 /\ stepExp' = 0
               /\ lastDpos' = IF IsVal(t) THEN <<"val", -t[2], t[3] + DeltaPosShift>> ELSE t
               /\ UNCHANGED <<i, mu, dpos, outcome, poisoned>>

\* state.pos = pos_curr + step * delta_pos ; new_error = norm(constr(state))
Search ==
  /\ Solver = "linesearch" /\ pc = "search"
  /\ \E t \in (IF poisoned \/ IsNan(cur) THEN {<<"nan", 0, 0>>} ELSE Alphabet) :
       /\ script' = Append(script, t)
       /\ IF IsRaise(t)
          THEN Fail /\ UNCHANGED <<i, ls, cur, mu, dpos, stepExp, lastDpos, poisoned>>
          ELSE IF Less(t, cur) \/ ls + 1 = MaxLS
          THEN \* accept this step size (line search succeeded, or exhausted its halvings):
               \* mu += step * delta_mu with the step size the position was actually moved with
               /\ mu' = IF IsVal(cur) THEN Append(mu, <<cur[2], cur[3] + DeltaMuShift + stepExp>>)
                        ELSE IF IsNan(cur) THEN Append(mu, <<0, 0>>) ELSE mu
               /\ dpos' = IF IsVal(cur) THEN Append(dpos, <<-cur[2], cur[3] + DeltaPosShift + stepExp>>)
                          ELSE IF IsNan(cur) THEN Append(dpos, <<0, 0>>) ELSE dpos
               /\ poisoned' = (poisoned \/ IsNan(cur))
               /\ i' = i + 1 /\ pc' = "eval"
               /\ cur' = t
               /\ UNCHANGED <<ls, stepExp, lastDpos, outcome>>
          ELSE /\ ls' = ls + 1 /\ stepExp' = stepExp - 1
               /\ UNCHANGED <<pc, i, cur, mu, dpos, lastDpos, outcome, poisoned>>

\* ---- direct fixed-point iteration: x = func(x0); error = norm(x - x0) ------------
EvalFP ==
  /\ Solver = "fpdirect" /\ pc = "eval"
  /\ IF i = MaxIters
     THEN Fail /\ UNCHANGED <<i, ls, script, cur, mu, dpos, stepExp, lastDpos, poisoned>>
     ELSE \E t \in Choices :
       /\ script' = Append(script, t)
       /\ cur' = t
       /\ IF IsRaise(t) \/ IsNan(t) \/ Above(t, DTOL)
          THEN Fail /\ UNCHANGED <<i, ls, mu, dpos, stepExp, lastDpos, poisoned>>
          ELSE \* x moves by the chosen increment; return it if the increment is below tolerance
               /\ dpos' = IF IsZero(t) THEN dpos ELSE Append(dpos, <<t[2], t[3]>>)
               /\ IF Below(t, CTOL) THEN Ret /\ UNCHANGED <<i>>
                  ELSE i' = i + 1 /\ UNCHANGED <<pc, outcome>>
               /\ UNCHANGED <<ls, mu, stepExp, lastDpos, poisoned>>

Next == EvalNQ \/ EvalLS \/ Search \/ EvalFP
Spec == Init /\ [][Next]_vars

-----------------------------------------------------------------------------
Done == pc = "done"

\* C04 / C12: a solver returns only a converged result
ReturnsOnlyConverged ==
  (Done /\ outcome = "return") => Below(cur, CTOL)

\* every run ends in a return or a ConvergenceError, within the iteration budget
Terminates == Done => outcome \in {"return", "ConvergenceError"}
Bounded == i <= MaxIters /\ ls <= MaxLS

\* C04: Lagrange-multiplier form -- the position displacement is -|t| M^-1 J_prev^T mu for the
\* same mu that corrects the momentum: term by term dpos = -(2^TE) * mu
LagrangeForm ==
  (Solver # "fpdirect") =>
     /\ Len(dpos) = Len(mu)
     /\ \A n \in 1..Len(mu) : dpos[n] = <<-mu[n][1], mu[n][2] + TE>> \/ (mu[n] = <<0, 0>> /\ dpos[n] = <<0, 0>>)

\* C12: NaN residuals, divergence and foreign exceptions never produce a return
FaultsContained ==
  (Done /\ outcome = "return") =>
     \* (a NaN residual at a line-search trial position rejects that trial, which is containment too)
     \A n \in 1..Len(script) : ~IsRaise(script[n]) /\ (Solver # "linesearch" => ~IsNan(script[n]))

PrintTerminal ==
  Done => PrintT(ToJson([solver |-> Solver, je |-> JE, te |-> TE, maxiters |-> MaxIters, maxls |-> MaxLS,
                         script |-> script, outcome |-> outcome, mu |-> mu, dpos |-> dpos, iters |-> i]))
=============================================================================
