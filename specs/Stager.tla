------------------------------- MODULE Stager -------------------------------
(***************************************************************************)
(* C16, first sentence: a stager splits the requested iterations into      *)
(* consecutive stages whose warm-up lengths sum exactly to the requested   *)
(* warm-up count and whose final stage is the non-adaptive main stage of   *)
(* the requested length; slow adapters are active only in the slow windows *)
(* and fast adapters in all warm-up stages.                                 *)
(*                                                                          *)
(* The stage lists are the REAL outputs of Stager.stages(...) for a sweep   *)
(* of requests (module StagerData, generated); the window arithmetic is     *)
(* thereby checked without re-implementing float rounding in TLA+.  TLC     *)
(* takes one request per initial state and evaluates the invariants.        *)
(***************************************************************************)
EXTENDS Integers, Sequences, FiniteSets, TLC, Json, StagerData
\* StagerData: Requests == << [kind, nwarm, nmain, fast (set of adapter ids), slow (set), tracewarm,
\*                             stages |-> << [label, n, adapters (set of ids), traced, stats] >>] >>

VARIABLE q
Init == q \in 1..Len(Requests)
Next == UNCHANGED q
Spec == Init /\ [][Next]_q

R == Requests[q]
S == R.stages
RECURSIVE Sum(_, _)
Sum(s, i) == IF i = 0 THEN 0 ELSE s[i].n + Sum(s, i - 1)
HasMain == R.nmain > 0
NWarmStages == IF HasMain THEN Len(S) - 1 ELSE Len(S)
AllAd == R.fast \cup R.slow

NonNegative == \A i \in 1..Len(S) : S[i].n >= 0

WarmUpSumsExactly == Sum(S, NWarmStages) = R.nwarm

MainStageLast ==
  HasMain => /\ Len(S) >= 1
             /\ S[Len(S)].n = R.nmain
             /\ S[Len(S)].adapters = {}
             /\ S[Len(S)].traced = R.hastrace /\ S[Len(S)].stats

NoMainWhenZero == ~HasMain => \A i \in 1..Len(S) : S[i].label # "Main non-adaptive"

\* fast adapters in every warm-up stage; slow adapters only in the slow windows
FastEverywhere == \A i \in 1..NWarmStages : R.fast \subseteq S[i].adapters
SlowOnlyInWindows ==
  \A i \in 1..NWarmStages :
     (S[i].adapters \cap R.slow # {}) => (R.kind = "warmup" \/ S[i].slow)
SlowInAllWindows == \A i \in 1..NWarmStages : S[i].slow => AllAd \subseteq S[i].adapters

\* windows of the windowed stager grow (each window at least as long as the previous, the last
\* one absorbing the remainder)
WindowsGrow ==
  \A i, j \in 1..NWarmStages : (S[i].slow /\ S[j].slow /\ i < j /\ R.kind = "windowed") => S[i].n <= S[j].n \/ j = NWarmStages - 1

\* warm-up stages are traced iff warm-up tracing is on and there is something to trace; statistics are recorded
\* iff warm-up tracing is on (also in statistics-only runs: trace_funcs = None)
WarmUpTracing == \A i \in 1..NWarmStages : S[i].traced = (R.tracewarm /\ R.hastrace) /\ S[i].stats = R.tracewarm
=============================================================================
