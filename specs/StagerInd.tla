----------------------------- MODULE StagerInd -----------------------------
(***************************************************************************)
(* Unbounded version of StagerModel.tla for Apalache: the same Split /     *)
(* Window / Finish actions without the history of window lengths, for ANY  *)
(* request n >= 0 and ANY window settings f, w, e >= 0 (w >= 1) -- only the *)
(* multiplier MN/MD is fixed per run.  IndInv is an inductive invariant:    *)
(*    Init => IndInv,   IndInv /\ Next => IndInv',   IndInv => Safe         *)
(* so the partition property holds for every request, not only n <= 400.    *)
(***************************************************************************)
EXTENDS Integers

CONSTANTS
  \* @type: Int;
  MN,
  \* @type: Int;
  MD

VARIABLES
  \* @type: Int;
  f,
  \* @type: Int;
  w,
  \* @type: Int;
  e,
  \* @type: Int;
  n,
  \* @type: Str;
  pc,
  \* @type: Int;
  fast0,
  \* @type: Int;
  fast1,
  \* @type: Int;
  budget,
  \* @type: Int;
  window,
  \* @type: Int;
  counter,
  \* @type: Int;
  nwin,
  \* @type: Int;
  lastwin

Init ==
  /\ f \in Nat /\ w \in Nat /\ e \in Nat /\ n \in Nat /\ w >= 1
  /\ pc = "split"
  /\ fast0 = 0 /\ fast1 = 0 /\ budget = 0 /\ window = 0 /\ counter = 0 /\ nwin = 0 /\ lastwin = 0

Split ==
  /\ pc = "split"
  /\ IF f + w + e > n
     THEN /\ fast0' = (15 * n) \div 100 /\ fast1' = n \div 10
          /\ window' = n - ((15 * n) \div 100) - (n \div 10)
          /\ budget' = n - ((15 * n) \div 100) - (n \div 10)
     ELSE /\ fast0' = f /\ fast1' = e /\ window' = w /\ budget' = n - f - e
  /\ pc' = IF n > 0 THEN "loop" ELSE "done"
  /\ UNCHANGED <<f, w, e, n, counter, nwin, lastwin>>

Window ==
  /\ pc = "loop" /\ counter < budget
  /\ LET reach == counter + (((MD + MN) * window) \div MD)
         x == IF reach > budget THEN budget - counter ELSE window
     IN /\ counter' = counter + x
        /\ window' = (MN * x) \div MD
        /\ lastwin' = x
        /\ nwin' = nwin + 1
  /\ UNCHANGED <<f, w, e, n, pc, fast0, fast1, budget>>

Finish ==
  /\ pc = "loop" /\ counter >= budget
  /\ pc' = "done"
  /\ UNCHANGED <<f, w, e, n, fast0, fast1, budget, window, counter, nwin, lastwin>>

Next == Split \/ Window \/ Finish

\* ---- inductive invariant ---------------------------------------------------------
IndInv ==
  /\ f >= 0 /\ w >= 1 /\ e >= 0 /\ n >= 0
  /\ pc \in {"split", "loop", "done"}
  /\ pc = "split" => (counter = 0 /\ nwin = 0 /\ lastwin = 0)
  /\ pc = "loop" =>
       /\ n >= 1
       /\ fast0 >= 0 /\ fast1 >= 0 /\ budget >= 1
       /\ fast0 + budget + fast1 = n
       /\ counter >= 0 /\ counter <= budget
       /\ window >= 1
       /\ (counter < budget => budget - counter >= window)
       /\ nwin >= 0 /\ (nwin = 0 <=> counter = 0)
       /\ (nwin >= 1 => (lastwin >= 1 /\ window >= lastwin))
  /\ pc = "done" =>
       \/ (n = 0 /\ counter = 0 /\ nwin = 0 /\ fast0 = 0 /\ fast1 = 0)
       \/ (n >= 1 /\ fast0 >= 0 /\ fast1 >= 0 /\ fast0 + counter + fast1 = n /\ nwin >= 1 /\ lastwin >= 1)

IndInit ==
  /\ f \in Int /\ w \in Int /\ e \in Int /\ n \in Int
  /\ pc \in {"split", "loop", "done"}
  /\ fast0 \in Int /\ fast1 \in Int /\ budget \in Int /\ window \in Int /\ counter \in Int
  /\ nwin \in Int /\ lastwin \in Int
  /\ IndInv

\* ---- what C16 asks of the schedule -----------------------------------------------
\* (counter is the sum of the scheduled windows by construction)
Safe ==
  pc = "done" =>
     /\ fast0 + counter + fast1 = n          \* warm-up stages sum exactly to the request
     /\ fast0 >= 0 /\ fast1 >= 0
     /\ (n > 0 => nwin >= 1)                  \* at least one slow window
\* the loop makes progress: every window is non-empty and never overshoots
Progressing == pc = "loop" => (window >= 1 /\ counter <= budget)
\* ... so budget - counter is a variant of the loop (action invariant): termination for every request
Variant == (pc = "loop" /\ pc' = "loop") => (counter' > counter /\ counter' <= budget)
=============================================================================
