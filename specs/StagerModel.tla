---------------------------- MODULE StagerModel ----------------------------
(***************************************************************************)
(* The windowed warm-up schedule of mici/stagers.py as a state machine     *)
(* (C16, first sentence), for EVERY request in a range rather than the      *)
(* outputs of a sweep (module Stager judges those).                         *)
(*                                                                          *)
(*   settings : initial fast stage F, initial slow window W, final fast     *)
(*              stage E, window multiplier Mn/Md (a rational >= 1)          *)
(*   request  : number of warm-up iterations n                              *)
(*                                                                          *)
(*   Split    : if F + W + E > n the three parts become                     *)
(*              floor(15 n / 100), n - that - floor(n / 10), floor(n / 10)  *)
(*   Window   : while the slow budget is not used up, append a window; a    *)
(*              window that could not be followed by a full next one        *)
(*              absorbs the remainder; window sizes are multiplied by Mn/Md *)
(*              (rounded down)                                              *)
(*                                                                          *)
(* One action per loop iteration of the implementation so that TLC's        *)
(* deadlock check decides termination of the loop and the invariants hold   *)
(* at every intermediate point.  Terminal states are exported and the real  *)
(* WindowedWarmUpStager must produce exactly the same stage lengths.        *)
(***************************************************************************)
EXTENDS Integers, Sequences, FiniteSets, TLC, Json

CONSTANTS MaxWarm,     \* requests n \in 0..MaxWarm
          Settings     \* set of records [f, w, e, mn, md]

VARIABLES st,      \* the settings of this request
          n,       \* requested warm-up iterations
          pc,      \* "split" | "loop" | "done"
          fast0,   \* length of the initial fast stage
          fast1,   \* length of the final fast stage
          budget,  \* iterations of the slow stage
          window,  \* length of the next window
          counter, \* slow iterations scheduled so far
          windows  \* window lengths scheduled so far

vars == <<st, n, pc, fast0, fast1, budget, window, counter, windows>>

Floor(a, b) == a \div b      \* a >= 0, b > 0

Init ==
  /\ st \in Settings
  /\ n \in 0..MaxWarm
  /\ pc = "split"
  /\ fast0 = 0 /\ fast1 = 0 /\ budget = 0 /\ window = 0 /\ counter = 0
  /\ windows = <<>>

Split ==
  /\ pc = "split"
  /\ IF st.f + st.w + st.e > n
     THEN LET f == Floor(15 * n, 100) e == Floor(n, 10)
          IN /\ fast0' = f /\ fast1' = e /\ window' = n - f - e /\ budget' = n - f - e
     ELSE /\ fast0' = st.f /\ fast1' = st.e /\ window' = st.w /\ budget' = n - st.f - st.e
  /\ pc' = IF n > 0 THEN "loop" ELSE "done"
  /\ UNCHANGED <<st, n, counter, windows>>

\* one iteration of the window loop
Window ==
  /\ pc = "loop" /\ counter < budget
  /\ LET reach == counter + Floor((st.md + st.mn) * window, st.md)
         w == IF reach > budget THEN budget - counter ELSE window
     IN /\ windows' = Append(windows, w)
        /\ counter' = counter + w
        /\ window' = Floor(st.mn * w, st.md)
  /\ UNCHANGED <<st, n, pc, fast0, fast1, budget>>

Finish ==
  /\ pc = "loop" /\ counter >= budget
  /\ pc' = "done"
  /\ UNCHANGED <<st, n, fast0, fast1, budget, window, counter, windows>>

Terminated == pc = "done" /\ UNCHANGED vars

Next == Split \/ Window \/ Finish \/ Terminated
Spec == Init /\ [][Next]_vars /\ WF_vars(Split \/ Window \/ Finish)

-----------------------------------------------------------------------------
RECURSIVE SumSeq(_)
SumSeq(s) == IF s = <<>> THEN 0 ELSE Head(s) + SumSeq(Tail(s))

TypeOK == /\ fast0 >= 0 /\ fast1 >= 0 /\ budget >= 0 /\ counter >= 0
          /\ \A i \in 1..Len(windows) : windows[i] >= 0

\* the loop never overshoots the slow budget
NeverOvershoots == counter <= budget /\ counter = SumSeq(windows)

\* progress: every scheduled window is non-empty, so the loop terminates (also decided by Termination)
WindowsNonEmpty == \A i \in 1..Len(windows) : windows[i] >= 1

\* C16: the warm-up stages sum exactly to the request
SumsExactly == pc = "done" => (IF n = 0 THEN windows = <<>> ELSE fast0 + SumSeq(windows) + fast1 = n)

\* windows grow (weakly): a window is replaced by the remainder only when the remainder is at least as
\* long as the window (and shorter than the window plus its successor), so even the last one grows
WindowsGrow == \A i \in 1..(Len(windows) - 1) : windows[i] <= windows[i + 1]
\* no window other than the last could have been followed by ... nothing: the budget left after a
\* non-final window is at least the next nominal window
RemainderFits == pc = "loop" /\ counter < budget /\ Len(windows) >= 1 => budget - counter >= window

\* with the requested split respected whenever it fits
SplitRespected == (pc # "split" /\ st.f + st.w + st.e <= n) =>
                     (fast0 = st.f /\ fast1 = st.e /\ (Len(windows) >= 1 => windows[1] = IF Floor((st.md + st.mn) * st.w, st.md) > budget THEN budget ELSE st.w))
\* a request smaller than the settings gets a single slow window
SingleWindowWhenSmall == (pc = "done" /\ n > 0 /\ st.f + st.w + st.e > n) => Len(windows) = 1

Termination == <>(pc = "done")

Export == pc = "done" =>
  PrintT(ToJson([f |-> st.f, w |-> st.w, e |-> st.e, mn |-> st.mn, md |-> st.md, n |-> n,
                 fast0 |-> fast0, fast1 |-> fast1, windows |-> windows]))
=============================================================================
