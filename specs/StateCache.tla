------------------------------ MODULE StateCache ------------------------------
(***************************************************************************)
(* State-level memoisation of mici (states.py): ChainState objects with    *)
(* versioned variables, a per-object cache, dependency sets shared between *)
(* copies, call counters; the two decorators transcribed line by line.     *)
(*                                                                          *)
(* Array values are abstracted to VERSIONS: every assignment creates a     *)
(* fresh version; a cached value carries as its tag, per state variable,   *)
(* the set of versions it was (transitively) computed from.                *)
(*                                                                          *)
(* Constants (module CacheConsts, generated on every run):                 *)
(*   Class         system class (selects the documentation table)          *)
(*   Declared[m]   depends_on of the decorator, EXTRACTED FROM THE CODE     *)
(*   Aux[m]        auxiliary_outputs of the decorator, EXTRACTED            *)
(*   CallableV[m]  whether the cached value is a callable, MEASURED         *)
(*   WithAux[m]    whether the user function returns the auxiliary tuple    *)
(*   NObj, NSys, MaxSteps, Entry (methods offered as Call actions)          *)
(* Properties:                                                              *)
(*   Fresh (C09)       every returned value is computed from the current   *)
(*                     versions of everything the documented formula reads *)
(*   NoRecompute (C18) a call whose value is available by contract          *)
(*                     evaluates no user function                            *)
(***************************************************************************)
EXTENDS Integers, Sequences, FiniteSets, TLC, Json, CacheTables, CacheConsts

Vars == {"pos", "mom", "dir"}
Table == Tables[Class]
Methods == DOMAIN Table
Memo == {m \in Methods : Table[m].memo}
Objs == 1..NObj
Syss == 1..NSys
\* cache slots: every memoised method, plus whatever names the code declares as auxiliary outputs
\* (a declared name that is not a memoised method is a slot nobody reads)
AuxNames == UNION {{Aux[m][i] : i \in 1..Len(Aux[m])} : m \in DOMAIN Aux}
Keys == (Memo \cup AuxNames) \X Syss

EmptyTag == [pos |-> {}, mom |-> {}, dir |-> {}]
Absent == [st |-> "A", tag |-> EmptyTag]
NoneV == [st |-> "N", tag |-> EmptyTag]
Entry_(tag) == [st |-> "E", tag |-> tag]

RECURSIVE TrueDeps(_)
TrueDeps(m) ==
  Table[m].reads \cup UNION {TrueDeps(Table[m].calls[i]) : i \in 1..Len(Table[m].calls)}

\* memoised methods reachable from m through documented calls (including m)
RECURSIVE Closure(_)
Closure(m) ==
  (IF Table[m].memo THEN {m} ELSE {})
    \cup UNION {Closure(Table[m].calls[i]) : i \in 1..Len(Table[m].calls)}

TD(n) == IF n \in Methods THEN TrueDeps(n) ELSE {}
IsCallable(n) == n \in DOMAIN CallableV /\ CallableV[n]
AuxSet(m) == IF m \in DOMAIN Aux THEN {Aux[m][i] : i \in 1..Len(Aux[m])} ELSE {}
AuxSeq(m) == IF m \in DOMAIN Aux THEN Aux[m] ELSE <<>>

VARIABLES
  live,      \* set of constructed state objects
  ver,       \* ver[o][v]  : version of variable v of object o
  ro,        \* ro[o]      : read-only flag
  cache,     \* cache[o][k]: Absent | NoneV | [tag |-> ...]
  grp,       \* grp[o]     : dependency group (the _dependencies dict is shared by copies)
  deps,      \* deps[g][v] : keys registered as depending on v
  cg,        \* cg[o]      : counter group (_call_counts shared by copies)
  counts,    \* counts[c][k]
  known,     \* known[o]   : keys whose value is available by the memoisation contract (ghost)
  nextver, nextgrp, nextcg, steps,
  last,      \* observation of the last action
  hist       \* sequence of `last` records (not part of the VIEW)

vars == <<live, ver, ro, cache, grp, deps, cg, counts, known, nextver, nextgrp, nextcg, steps, last, hist>>

UserFns == {Table[m].fn : m \in Methods} \ {""}

Init ==
  /\ live = {1}
  /\ ver = TLCEval([o \in Objs |-> IF o = 1 THEN [pos |-> 1, mom |-> 1, dir |-> 1]
                                           ELSE [pos |-> 0, mom |-> 0, dir |-> 0]])
  /\ ro = TLCEval([o \in Objs |-> FALSE])
  /\ cache = TLCEval([o \in Objs |-> TLCEval([k \in Keys |-> Absent])])
  /\ grp = TLCEval([o \in Objs |-> IF o = 1 THEN 1 ELSE 0])
  /\ deps = TLCEval([g \in 1..(NObj + 1) |-> [pos |-> {}, mom |-> {}, dir |-> {}]])
  /\ cg = TLCEval([o \in Objs |-> IF o = 1 THEN 1 ELSE 0])
  /\ counts = TLCEval([c \in 1..(NObj + 1) |-> TLCEval([k \in Keys |-> 0])])
  /\ known = TLCEval([o \in Objs |-> {}])
  /\ nextver = 2 /\ nextgrp = 2 /\ nextcg = 2 /\ steps = 0
  /\ last = [op |-> "init"]
  /\ hist = <<>>

(***************************************************************************)
(* The decorators. st = [cache, deps, counts, evals, visited] threaded through *)
(* nested calls a method body makes.                                        *)
(***************************************************************************)
MergeTag(a, b) == [pos |-> a.pos \cup b.pos, mom |-> a.mom \cup b.mom, dir |-> a.dir \cup b.dir]

RECURSIVE DoCall(_, _, _, _), EvalBody(_, _, _, _, _, _)

\* evaluate the documented body of m: nested calls in order, accumulating the tag
EvalBody(st, s, m, o, i, tag) ==
  IF i > Len(Table[m].calls) THEN [st |-> st, tag |-> tag]
  ELSE LET r == DoCall(st, s, Table[m].calls[i], o)
       IN EvalBody(r.st, s, m, o, i + 1, MergeTag(tag, r.tag))

DT(m, o, v) == IF v \in Table[m].reads THEN {ver[o][v]} ELSE {}
DirectTag(m, o) == [pos |-> DT(m, o, "pos"), mom |-> DT(m, o, "mom"), dir |-> DT(m, o, "dir")]

DoCall(st, s, m, o) ==
  IF ~Table[m].memo
  THEN \* plain method: evaluate the body every time
       LET r == EvalBody(st, s, m, o, 1, DirectTag(m, o))
       IN [st |-> [r.st EXCEPT !.evals[s] =
                     IF Table[m].fn = "" THEN @ ELSE [@ EXCEPT ![Table[m].fn] = @ + 1]],
           tag |-> r.tag]
  ELSE
  LET key == <<m, s>>
      \* cache_in_state registers the primary key only; cache_in_state_with_aux also its aux keys
      regKeys == {key} \cup {<<a, s>> : a \in AuxSet(m)}
      newKeys == {k \in regKeys : st.cache[o][k] = Absent}
      g == grp[o]
      D1(v) == IF v \in Declared[m] THEN st.deps[g][v] \cup newKeys ELSE st.deps[g][v]
      deps1 == [st.deps EXCEPT ![g] = [pos |-> D1("pos"), mom |-> D1("mom"), dir |-> D1("dir")]]
      st1 == [st EXCEPT !.deps = deps1]
      status == st.cache[o][key]
  IN IF status.st = "E"
     THEN [st |-> [st1 EXCEPT !.visited = @ \cup {key}], tag |-> status.tag]     \* cache hit
     ELSE
       LET r == EvalBody(st1, s, m, o, 1, DirectTag(m, o))
           tagv == r.tag
           filled == IF WithAux[m] THEN {<<a, s>> : a \in AuxSet(m)} ELSE {}
           \* what the documentation says has been delivered alongside the derivative
           promised == IF WithAux[m] THEN {<<AuxDoc(m)[i], s>> : i \in 1..Len(AuxDoc(m))} ELSE {}
           cache2 == [r.st.cache EXCEPT ![o] =
                        TLCEval([k \in Keys |-> IF k = key THEN Entry_(tagv)
                                        ELSE IF k \in filled THEN Entry_(DirectTag(m, o))
                                        ELSE @[k]])]
           st2 == [r.st EXCEPT !.cache = cache2,
                               !.visited = @ \cup {key} \cup promised,
                               !.counts[cg[o]][key] = @ + 1,
                               !.evals[s] = IF Table[m].fn = "" THEN @
                                            ELSE [@ EXCEPT ![Table[m].fn] = @ + 1]]
       IN [st |-> st2, tag |-> tagv]

IsFresh(tag, m, o) == \A v \in TrueDeps(m) : tag[v] = {ver[o][v]}

\* memoised methods a call of m reaches first (m itself if memoised)
RECURSIVE Frontier(_)
Frontier(m) ==
  IF Table[m].memo THEN {m}
  ELSE UNION {Frontier(Table[m].calls[i]) : i \in 1..Len(Table[m].calls)}

\* The contract: a memoised method that has been invoked on o (or whose value was delivered as
\* an auxiliary output of a derivative function) is available on o and on its copies until a
\* variable it depends on is assigned.  A call should evaluate nothing when everything it
\* reaches first is available.
ShouldHit(s, m, o) == Frontier(m) # {} /\ \A mm \in Frontier(m) : <<mm, s>> \in known[o]

TotalEvals(ev) ==
  LET RECURSIVE Sum(_)
      Sum(S) == IF S = {} THEN 0 ELSE LET x == CHOOSE x \in S : TRUE IN ev[x[1]][x[2]] + Sum(S \ {x})
  IN Sum(Syss \X UserFns)

Call(s, m, o) ==
  /\ o \in live
  /\ LET st0 == [cache |-> cache, deps |-> deps, counts |-> counts,
                   evals |-> [ss \in Syss |-> [f \in UserFns |-> 0]], visited |-> {}]
         r == DoCall(st0, s, m, o)
     IN /\ cache' = TLCEval(r.st.cache) /\ deps' = TLCEval(r.st.deps) /\ counts' = TLCEval(r.st.counts)
        /\ known' = [known EXCEPT ![o] = @ \cup r.st.visited]
        /\ last' = [op |-> "call", s |-> s, m |-> m, o |-> o,
                    fresh |-> IsFresh(r.tag, m, o),
                    shouldHit |-> ShouldHit(s, m, o),
                    newEvals |-> TotalEvals(r.st.evals),
                    evald |-> {f \in UserFns : r.st.evals[s][f] > 0},
                    counted |-> {k \in Keys : r.st.counts[cg[o]][k] > counts[cg[o]][k]},
                    status |-> TLCEval([k \in Keys |-> r.st.cache[o][k].st])]
  /\ UNCHANGED <<live, ver, ro, grp, cg, nextver, nextgrp, nextcg>>

Assign(o, v) ==
  /\ o \in live
  /\ IF ro[o]
     THEN /\ last' = [op |-> "assign_ro", o |-> o, v |-> v]
          /\ UNCHANGED <<ver, cache, known, nextver>>
     ELSE /\ ver' = [ver EXCEPT ![o][v] = nextver]
          /\ nextver' = nextver + 1
          /\ cache' = [cache EXCEPT ![o] = TLCEval([k \in Keys |-> IF k \in deps[grp[o]][v] THEN NoneV ELSE @[k]])]
          /\ known' = [known EXCEPT ![o] = {k \in @ : v \notin TD(k[1])}]
          /\ last' = [op |-> "assign", o |-> o, v |-> v]
  /\ UNCHANGED <<live, ro, grp, deps, cg, counts, nextgrp, nextcg>>

Copy(o, readonly) ==
  /\ o \in live
  /\ \E n \in Objs \ live :
       /\ n = CHOOSE x \in Objs \ live : \A y \in Objs \ live : x <= y
       /\ live' = live \cup {n}
       /\ ver' = [ver EXCEPT ![n] = ver[o]]
       /\ ro' = [ro EXCEPT ![n] = readonly]
       /\ cache' = [cache EXCEPT ![n] = cache[o]]          \* shallow copy of the cache dict
       /\ grp' = [grp EXCEPT ![n] = grp[o]]                \* _dependencies shared by reference
       /\ cg' = [cg EXCEPT ![n] = cg[o]]                   \* _call_counts shared by reference
       /\ known' = [known EXCEPT ![n] = known[o]]
       /\ last' = [op |-> "copy", o |-> o, n |-> n, readonly |-> readonly]
  /\ UNCHANGED <<deps, counts, nextver, nextgrp, nextcg>>

Pickle(o) ==
  /\ o \in live
  /\ \E n \in Objs \ live :
       /\ n = CHOOSE x \in Objs \ live : \A y \in Objs \ live : x <= y
       /\ live' = live \cup {n}
       /\ ver' = [ver EXCEPT ![n] = ver[o]]
       /\ ro' = [ro EXCEPT ![n] = ro[o]]
       \* callable cached values are dropped by __getstate__
       /\ cache' = [cache EXCEPT ![n] =
                      TLCEval([k \in Keys |-> IF cache[o][k].st = "E" /\ IsCallable(k[1])
                                      THEN Absent ELSE cache[o][k]])]
       /\ grp' = [grp EXCEPT ![n] = nextgrp]
       /\ deps' = [deps EXCEPT ![nextgrp] = deps[grp[o]]]  \* deep copy
       /\ nextgrp' = nextgrp + 1
       /\ cg' = [cg EXCEPT ![n] = nextcg]
       /\ counts' = [counts EXCEPT ![nextcg] = counts[cg[o]]]
       /\ nextcg' = nextcg + 1
       /\ known' = [known EXCEPT ![n] = {k \in known[o] : ~IsCallable(k[1])}]
       /\ last' = [op |-> "pickle", o |-> o, n |-> n]
  /\ UNCHANGED nextver

Next ==
  /\ steps < MaxSteps
  /\ steps' = steps + 1
  /\ \/ \E o \in Objs, v \in Vars : Assign(o, v)
     \/ \E o \in Objs, b \in BOOLEAN : Copy(o, b)
     \/ \E o \in Objs : Pickle(o)
     \/ \E s \in Syss, m \in Entry, o \in Objs : Call(s, m, o)
  /\ hist' = Append(hist, last')

Spec == Init /\ [][Next]_vars

\* Behaviour export for the spec -> code replay.  `hist` is outside the VIEW, so in
\* breadth-first mode it holds ONE path to every distinct state; every state below the step
\* bound has a successor extending its path, hence the leaves' histories cover every
\* distinct (state, last action) pair.  In -simulate mode each random behaviour is printed.
PrintLeaf == steps = MaxSteps => PrintT(ToJson(hist))

-----------------------------------------------------------------------------
\* C09: every value returned by a system method is computed from the current variable values
Fresh == last.op = "call" => last.fresh

\* C18: a call whose value is available by contract evaluates no user function
NoRecompute == (last.op = "call" /\ last.shouldHit) => last.newEvals = 0

\* structural sanity of the model itself
TypeOK ==
  /\ live \subseteq Objs
  /\ \A o \in live : grp[o] > 0 /\ cg[o] > 0
  /\ \A o \in Objs \ live : \A k \in Keys : cache[o][k] = Absent

\* view hiding pure observation variables (history does not add behaviour)
View == <<live, ver, ro, cache, grp, deps, cg, known, nextver, nextgrp, nextcg, steps, last>>
=============================================================================
