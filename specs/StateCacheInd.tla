---------------------------- MODULE StateCacheInd ----------------------------
(***************************************************************************)
(* The memoisation algorithm of mici/states.py (cache_in_state,            *)
(* cache_in_state_with_aux, ChainState.__setattr__ / copy / pickling) with  *)
(* an inductive invariant, for Apalache: C09's "whatever sequence of        *)
(* assignments, copies, pickling round trips and calls has happened"        *)
(* without a bound on the length of the history.                            *)
(*                                                                          *)
(* StateCache.tla (TLC) enumerates histories up to a depth bound against    *)
(* the dependency tables extracted from the running code and replays them   *)
(* on the real objects.  This module abstracts the tables to SYMBOLIC       *)
(* constants: Dep (declared dependencies), TrueDep (the variables a value   *)
(* really depends on, transitively), Aux (auxiliary outputs cached along     *)
(* with a method) and Callable (values that are not pickled), constrained   *)
(* only by the side conditions that TLC checks on the real tables:           *)
(*       TrueDep[k] \subseteq Dep[k]                                          *)
(*       a \in Aux[k]  =>  TrueDep[a] \subseteq Dep[k]                        *)
(* Versions are unbounded integers; three objects share or own one of four   *)
(* dependency dictionaries (copies share their parent's, a pickling round    *)
(* trip creates a new one).                                                   *)
(*                                                                          *)
(*    Init => IndInv,   IndInv /\ Next => IndInv',   IndInv => Fresh          *)
(***************************************************************************)
EXTENDS Integers, FiniteSets, Apalache

Objs == {"o1", "o2", "o3"}
Vars == {"pos", "mom", "dir"}
Keys == {"k1", "k2", "k3", "k4"}
Grps == {"g1", "g2", "g3", "g4"}

CONSTANTS
  \* @type: Str -> Set(Str);
  Dep,
  \* @type: Str -> Set(Str);
  TrueDep,
  \* @type: Str -> Set(Str);
  Aux,
  \* @type: Set(Str);
  Callable

ConstInit ==
  /\ Dep \in [Keys -> SUBSET Vars]
  /\ TrueDep \in [Keys -> SUBSET Vars]
  /\ Aux \in [Keys -> SUBSET Keys]
  /\ Callable \in SUBSET Keys
  /\ \A k \in Keys : TrueDep[k] \subseteq Dep[k]
  /\ \A k \in Keys : \A a \in Aux[k] : TrueDep[a] \subseteq Dep[k]

VARIABLES
  \* @type: Set(Str);
  alive,
  \* @type: Str -> (Str -> Int);
  ver,
  \* @type: Int;
  clock,
  \* @type: Str -> Set(Str);
  present,
  \* @type: Str -> Set(Str);
  valid,
  \* @type: Str -> (Str -> (Str -> Int));
  snap,
  \* @type: Str -> Str;
  grp,
  \* @type: Str -> (Str -> Set(Str));
  deps

vars == <<alive, ver, clock, present, valid, snap, grp, deps>>

Init ==
  /\ alive = {"o1"}
  /\ ver = [o \in Objs |-> [v \in Vars |-> 0]]
  /\ clock = 1
  /\ present = [o \in Objs |-> {}]
  /\ valid = [o \in Objs |-> {}]
  /\ snap = [o \in Objs |-> [k \in Keys |-> [v \in Vars |-> 0]]]
  /\ grp = [o \in Objs |-> "g1"]
  /\ deps = [g \in Grps |-> [v \in Vars |-> {}]]

\* ChainState.__setattr__: every key registered for the variable in the (shared) dependency dictionary is set to
\* None in THIS state's cache (which also makes it present there)
Assign(o, v) ==
  /\ o \in alive
  /\ ver' = [ver EXCEPT ![o][v] = clock]
  /\ clock' = clock + 1
  /\ valid' = [valid EXCEPT ![o] = @ \ deps[grp[o]][v]]
  /\ present' = [present EXCEPT ![o] = @ \cup deps[grp[o]][v]]
  /\ UNCHANGED <<alive, snap, grp, deps>>

\* a decorated method: keys not yet present (the method and its auxiliary outputs) are registered for the declared
\* dependencies; if the value is missing or None it is computed -- together with the auxiliary outputs if the user
\* function follows the tuple convention (withAux)
Call(o, k, withAux) ==
  /\ o \in alive
  /\ LET fam == {k} \cup Aux[k]
         newkeys == fam \ present[o]
         filled == IF k \in valid[o] THEN {} ELSE (IF withAux THEN fam ELSE {k})
     IN /\ deps' = [deps EXCEPT ![grp[o]] = [v \in Vars |-> IF v \in Dep[k] THEN @[v] \cup newkeys ELSE @[v]]]
        /\ present' = [present EXCEPT ![o] = @ \cup fam]
        /\ valid' = [valid EXCEPT ![o] = @ \cup filled]
        /\ snap' = [snap EXCEPT ![o] = [kk \in Keys |-> IF kk \in filled THEN ver[o] ELSE @[kk]]]
  /\ UNCHANGED <<alive, ver, clock, grp>>

\* ChainState.copy: variables copied, cache dictionary copied (entries shared), dependency dictionary SHARED
Copy(o, n) ==
  /\ o \in alive /\ n # o
  /\ alive' = alive \cup {n}
  /\ ver' = [ver EXCEPT ![n] = ver[o]]
  /\ present' = [present EXCEPT ![n] = present[o]]
  /\ valid' = [valid EXCEPT ![n] = valid[o]]
  /\ snap' = [snap EXCEPT ![n] = snap[o]]
  /\ grp' = [grp EXCEPT ![n] = grp[o]]
  /\ UNCHANGED <<clock, deps>>

\* pickling round trip: callable values are dropped from the cache, the dependency dictionary is a new object with
\* the same registrations
Pickle(o, n, g) ==
  /\ o \in alive /\ n # o
  /\ \A x \in alive \ {n} : grp[x] # g          \* a dictionary nobody else holds
  /\ alive' = alive \cup {n}
  /\ ver' = [ver EXCEPT ![n] = ver[o]]
  /\ present' = [present EXCEPT ![n] = present[o] \ (Callable \cap valid[o])]
  /\ valid' = [valid EXCEPT ![n] = valid[o] \ Callable]
  /\ snap' = [snap EXCEPT ![n] = snap[o]]
  /\ grp' = [grp EXCEPT ![n] = g]
  /\ deps' = [deps EXCEPT ![g] = deps[grp[o]]]
  /\ UNCHANGED clock

Next ==
  \/ \E o \in Objs, v \in Vars : Assign(o, v)
  \/ \E o \in Objs, k \in Keys, a \in BOOLEAN : Call(o, k, a)
  \/ \E o \in Objs, n \in Objs : Copy(o, n)
  \/ \E o \in Objs, n \in Objs, g \in Grps : Pickle(o, n, g)

-----------------------------------------------------------------------------
\* C09: a cached value is the value at the CURRENT versions of everything it depends on
Fresh == \A o \in alive : \A k \in valid[o] : \A v \in TrueDep[k] : snap[o][k][v] = ver[o][v]

\* every key present in a state's cache is registered, in the dictionary that state uses, for every variable its
\* value really depends on (so that the next assignment of that variable finds it).  A method is registered for
\* its declared dependencies, an auxiliary output for those of the method it was cached with.
Registered == \A o \in alive : \A k \in present[o] : \A v \in TrueDep[k] : k \in deps[grp[o]][v]

\* a key is registered for all the variables it really depends on at once (registration adds it for all declared
\* dependencies of the method being called, which cover them)
DepsClosed == \A g \in Grps : \A k \in Keys : \A v \in Vars : k \in deps[g][v] => \A u \in TrueDep[k] : k \in deps[g][u]

TypeOK ==
  /\ alive \subseteq Objs
  /\ DOMAIN ver = Objs /\ \A o \in Objs : DOMAIN ver[o] = Vars
  /\ DOMAIN present = Objs /\ \A o \in Objs : present[o] \subseteq Keys
  /\ DOMAIN valid = Objs /\ \A o \in Objs : valid[o] \subseteq Keys
  /\ DOMAIN snap = Objs /\ \A o \in Objs : (DOMAIN snap[o] = Keys /\ \A k \in Keys : DOMAIN snap[o][k] = Vars)
  /\ DOMAIN grp = Objs /\ \A o \in Objs : grp[o] \in Grps
  /\ DOMAIN deps = Grps /\ \A g \in Grps : (DOMAIN deps[g] = Vars /\ \A v \in Vars : deps[g][v] \subseteq Keys)

IndInv ==
  /\ TypeOK
  /\ \A o \in Objs : valid[o] \subseteq present[o]
  /\ \A o \in Objs : \A v \in Vars : ver[o][v] < clock
  /\ Registered
  /\ DepsClosed
  /\ Fresh

\* an ARBITRARY state satisfying the invariant (Gen: Apalache's bounded value generator; the bounds cover the
\* fixed finite domains above, integers are unconstrained)
IndInit ==
  /\ alive = Gen(3)
  /\ ver = Gen(3)
  /\ clock = Gen(1)
  /\ present = Gen(4)
  /\ valid = Gen(4)
  /\ snap = Gen(4)
  /\ grp = Gen(3)
  /\ deps = Gen(4)
  /\ IndInv
=============================================================================
