---------------------------- MODULE StateCacheInd ----------------------------
(***************************************************************************)
(* The memoisation algorithm of mici/states.py (cache_in_state,            *)
(* cache_in_state_with_aux, ChainState.__setattr__ / copy / pickling) with  *)
(* an inductive invariant, for Apalache: C09's "whatever sequence of        *)
(* assignments, copies, pickling round trips and calls has happened"        *)
(* without a bound on the length of the history.                            *)
(*                                                                          *)
(* StateCache.tla (TLC) enumerates histories up to a depth bound against    *)
(* the dependency tables extracted from the running code and replays them   *)
(* on the real objects.  This module abstracts the tables to SYMBOLIC       *)
(* constants: Dep (declared dependencies), TrueDep (the variables a value   *)
(* really depends on, transitively), Aux (auxiliary outputs cached along     *)
(* with a method) and Callable (values that are not pickled), constrained   *)
(* only by the side conditions that TLC checks on the real tables:           *)
(*       TrueDep[k] \subseteq Dep[k]                                          *)
(*       a \in Aux[k]  =>  TrueDep[a] \subseteq Dep[k]                        *)
(* Staleness is a ghost set: a valid cached value becomes stale when a        *)
(* variable it really depends on is assigned and the entry survives.  Three    *)
(* objects share or own one of four dependency dictionaries (copies share      *)
(* their parent's, a pickling round trip creates a new one).                   *)
(*                                                                          *)
(*    Init => IndInv,   IndInv /\ Next => IndInv',   IndInv => Fresh          *)
(***************************************************************************)
EXTENDS Integers, FiniteSets

Objs == {"o1", "o2", "o3"}
Vars == {"pos", "mom", "dir"}
Keys == {"k1", "k2", "k3", "k4"}
Grps == {"g1", "g2", "g3", "g4"}

CONSTANTS
  \* @type: Str -> Set(Str);
  Dep,
  \* @type: Str -> Set(Str);
  TrueDep,
  \* @type: Str -> Set(Str);
  Aux,
  \* @type: Set(Str);
  Callable

ConstInit ==
  /\ Dep \in [Keys -> SUBSET Vars]
  /\ TrueDep \in [Keys -> SUBSET Vars]
  /\ Aux \in [Keys -> SUBSET Keys]
  /\ Callable \in SUBSET Keys
  /\ \A k \in Keys : TrueDep[k] \subseteq Dep[k]
  /\ \A k \in Keys : \A a \in Aux[k] : TrueDep[a] \subseteq Dep[k]

VARIABLES
  \* @type: Set(Str);
  alive,
  \* @type: Set(<<Str, Str>>);
  present,     \* <<o, k>> : key k is in the cache dictionary of state o (possibly with value None)
  \* @type: Set(<<Str, Str>>);
  valid,       \* <<o, k>> : ... with a value
  \* @type: Set(<<Str, Str>>);
  stale,       \* <<o, k>> : (ghost) a variable the value really depends on was assigned since it was computed
  \* @type: Str -> Str;
  grp,         \* the dependency dictionary state o uses
  \* @type: Set(<<Str, Str, Str>>);
  deps         \* <<g, v, k>> : key k is registered for variable v in dictionary g

vars == <<alive, present, valid, stale, grp, deps>>

Init ==
  /\ alive = {"o1"}
  /\ present = {}
  /\ valid = {}
  /\ stale = {}
  /\ grp = [o \in Objs |-> "g1"]
  /\ deps = {}

\* @type: (Str, Str) => Set(Str);
Reg(o, v) == {k \in Keys : <<grp[o], v, k>> \in deps}       \* keys registered for v in the dictionary o uses
\* @type: (Set(<<Str, Str>>), Str) => Set(Str);
Of(S, o) == {k \in Keys : <<o, k>> \in S}
\* @type: (Set(<<Str, Str>>), Str) => Set(<<Str, Str>>);
Without(S, o) == {p \in S : p[1] # o}
\* @type: (Str, Set(Str)) => Set(<<Str, Str>>);
Pairs(o, K) == {<<o, k>> : k \in K}

\* ChainState.__setattr__: every key registered for the variable in the (shared) dependency dictionary is set to
\* None in THIS state's cache (which also makes it present there); a value that survives although it depends on
\* the variable is stale from now on
Assign(o, v) ==
  /\ o \in alive
  /\ valid' = valid \ Pairs(o, Reg(o, v))
  /\ present' = present \cup Pairs(o, Reg(o, v))
  /\ stale' = stale \cup Pairs(o, {k \in Of(valid, o) \ Reg(o, v) : v \in TrueDep[k]})
  /\ UNCHANGED <<alive, grp, deps>>

\* a decorated method: keys not yet present (the method and its auxiliary outputs) are registered for the declared
\* dependencies; if the value is missing or None it is computed -- together with the auxiliary outputs if the user
\* function follows the tuple convention (withAux); a computed value is fresh
Call(o, k, withAux) ==
  /\ o \in alive
  /\ LET fam == {k} \cup Aux[k]
         newkeys == fam \ Of(present, o)
         filled == IF <<o, k>> \in valid THEN {} ELSE (IF withAux THEN fam ELSE {k})
     IN /\ deps' = deps \cup {<<grp[o], v, kk>> : v \in Dep[k], kk \in newkeys}
        /\ present' = present \cup Pairs(o, fam)
        /\ valid' = valid \cup Pairs(o, filled)
        /\ stale' = stale \ Pairs(o, filled)
  /\ UNCHANGED <<alive, grp>>

\* ChainState.copy: variables copied, cache dictionary copied (entries shared), dependency dictionary SHARED
Copy(o, n) ==
  /\ o \in alive /\ n # o
  /\ alive' = alive \cup {n}
  /\ present' = Without(present, n) \cup Pairs(n, Of(present, o))
  /\ valid' = Without(valid, n) \cup Pairs(n, Of(valid, o))
  /\ stale' = Without(stale, n) \cup Pairs(n, Of(stale, o))
  /\ grp' = [grp EXCEPT ![n] = grp[o]]
  /\ UNCHANGED deps

\* pickling round trip: callable values are dropped from the cache, the dependency dictionary is a new object with
\* the same registrations
Pickle(o, n, g) ==
  /\ o \in alive /\ n # o
  /\ \A x \in alive \ {n} : grp[x] # g          \* a dictionary nobody else holds
  /\ alive' = alive \cup {n}
  /\ present' = Without(present, n) \cup Pairs(n, Of(present, o) \ (Callable \cap Of(valid, o)))
  /\ valid' = Without(valid, n) \cup Pairs(n, Of(valid, o) \ Callable)
  /\ stale' = Without(stale, n) \cup Pairs(n, Of(stale, o) \ Callable)
  /\ grp' = [grp EXCEPT ![n] = g]
  /\ deps' = {t \in deps : t[1] # g} \cup {<<g, t[2], t[3]>> : t \in {u \in deps : u[1] = grp[o]}}

Next ==
  \/ \E o \in Objs, v \in Vars : Assign(o, v)
  \/ \E o \in Objs, k \in Keys, a \in BOOLEAN : Call(o, k, a)
  \/ \E o \in Objs, n \in Objs : Copy(o, n)
  \/ \E o \in Objs, n \in Objs, g \in Grps : Pickle(o, n, g)

-----------------------------------------------------------------------------
\* C09: no valid cached value is stale
Fresh == \A p \in valid : p[1] \in alive => p \notin stale

\* every key present in a state's cache is registered, in the dictionary that state uses, for every variable its
\* value really depends on (so that the next assignment of that variable finds it).  A method is registered for
\* its declared dependencies, an auxiliary output for those of the method it was cached with.
Registered == \A p \in present : p[1] \in alive => \A v \in TrueDep[p[2]] : <<grp[p[1]], v, p[2]>> \in deps

\* a key is registered for all the variables it really depends on at once
DepsClosed == \A t \in deps : \A u \in TrueDep[t[3]] : <<t[1], u, t[3]>> \in deps

TypeOK ==
  /\ alive \subseteq Objs
  /\ present \subseteq (Objs \X Keys)
  /\ valid \subseteq (Objs \X Keys)
  /\ stale \subseteq (Objs \X Keys)
  /\ DOMAIN grp = Objs /\ \A o \in Objs : grp[o] \in Grps
  /\ deps \subseteq (Grps \X Vars \X Keys)

IndInv ==
  /\ TypeOK
  /\ valid \subseteq present
  /\ Registered
  /\ DepsClosed
  /\ Fresh
=============================================================================
