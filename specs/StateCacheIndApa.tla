-------------------------- MODULE StateCacheIndApa --------------------------
(* Apalache front end of StateCacheInd: an arbitrary state satisfying the inductive invariant
   (IndInit) for the check  IndInit /\ Next => IndInv'.  See DESIGN.md 10.9 for what Apalache 0.58 could and
   could not discharge here. *)
EXTENDS StateCacheInd, Apalache

IndInit ==
  /\ alive = Gen(3)
  /\ present = Gen(12)
  /\ valid = Gen(12)
  /\ stale = Gen(12)
  /\ grp = Gen(3)
  /\ deps = Gen(48)
  /\ IndInv
=============================================================================
