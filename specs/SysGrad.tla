------------------------------- MODULE SysGrad -------------------------------
(***************************************************************************)
(* C05: Hamiltonians and derivative methods of the system classes of       *)
(* mici/systems.py, decided by EXACT rational arithmetic on the model zoo's *)
(* polynomial model functions.                                              *)
(*                                                                          *)
(* The model functions (density F, constraint C, metric functions) are      *)
(* transcribed from harness/mbv/zoo.py; they are polynomials of degree <= 4 *)
(* in every coordinate, and so are the constant-metric Gram matrix and the  *)
(* position-dependent metrics, so the five-point stencil                    *)
(*     g'(x) = ( -g(x+2) + 8 g(x+1) - 8 g(x-1) + g(x-2) ) / 12               *)
(* is their EXACT partial derivative.  From these and the identities         *)
(*     d (1/2 log det A) = 1/2 tr(A^-1 dA),   d (1/2 p'A^-1 p) = -1/2 w' dA w *)
(* (w = A^-1 p) the true derivatives of the DOCUMENTED Hamiltonians          *)
(*     Euclidean           h1 = F                 h2 = 1/2 p'M^-1 p           *)
(*     Gaussian            h1 = F                 h2 = 1/2 q'q + 1/2 p'M^-1 p *)
(*     Constrained         h1 = F + 1/2 log det G  (G = J M^-1 J')            *)
(*     ConstrainedHausdorff h1 = F                                            *)
(*     GaussianConstrained h1 = F + 1/2 log det G, h2 as Gaussian             *)
(*     Riemannian (scalar / diag / chol / dense metric functions)            *)
(*                         h1 = F + 1/2 log det M(q), h2 = 1/2 p'M(q)^-1 p    *)
(* follow without transcribing any derivative formula of the implementation  *)
(* (nor the hand-written derivatives of the zoo).  TLC evaluates them at      *)
(* rational states and exports them; the real system objects must return the  *)
(* same values from h, h1, h2, dh1_dpos, dh2_dpos, dh2_dmom, dh_dpos, dh_dmom. *)
(***************************************************************************)
EXTENDS Integers, Sequences, FiniteSets, TLC, Json, ZooModel

CONSTANT Cases     \* set of records [sys, metric, curved, st] (+ marr when metric = "given")

VARIABLE c
Init == c \in Cases
Next == UNCHANGED c
Spec == Init /\ [][Next]_c

Qs == c.st.q
Ps == c.st.p
IsRiem == c.sys = "Riemannian"
IsGauss == c.sys \in {"Gaussian", "GaussianConstrained"}
HasGramTerm == c.sys \in {"Constrained", "GaussianConstrained"}
IsConstr == c.sys \in {"Constrained", "ConstrainedHausdorff", "GaussianConstrained"}

\* the constant metric: one of the zoo's three, or an exact matrix handed over by the harness ("given": the value of a
\* structured matrix object -- triangular-factored, low-rank update, block diagonal, rescaled after use, ...)
CM == IF c.metric = "given" THEN c.marr ELSE ConstMetric(c.metric)
Mq == IF IsRiem THEN MetricFn(c.metric, Qs) ELSE CM
G == Gram(c.curved, CM, Qs)

\* the documented Hamiltonian: rational part, and the determinant whose half logarithm is added to h1
H1Poly == F(Qs)
H1Det == IF IsRiem THEN MDet(Mq) ELSE IF HasGramTerm THEN MDet(G) ELSE R(1)
H2 == QAdd(Kinetic(Mq, Ps), IF IsGauss THEN QMul(Half, Dot(Qs, Qs)) ELSE R(0))

DH1 == VAdd(GradF(Qs),
            IF IsRiem THEN HalfLogDetGrad(LAMBDA x : MetricFn(c.metric, x), Qs)
            ELSE IF HasGramTerm THEN HalfLogDetGrad(LAMBDA x : Gram(c.curved, CM, x), Qs)
            ELSE Zero)
DH2Pos == IF IsRiem THEN KineticPosGrad(LAMBDA x : MetricFn(c.metric, x), Qs, Ps)
          ELSE IF IsGauss THEN Qs ELSE Zero
DH2Mom == LET w == MMul(MInverse(Mq), Col(Ps)) IN [i \in 1..N |-> w[i][1]]

\* sanity of the oracle itself (no implementation involved)
MetricPosDef == MIsPosDef(Mq)
GramPosDef == IsConstr => MIsPosDef(G)
\* Euler: the kinetic energy is homogeneous of degree 2 in Ps
KineticEuler == Dot(Ps, DH2Mom) = QMul(R(2), Kinetic(Mq, Ps))

Export ==
  PrintT(ToJson([sys |-> c.sys, metric |-> c.metric, curved |-> c.curved, q |-> Qs, p |-> Ps,
                 h1poly |-> H1Poly, h1det |-> H1Det, h2 |-> H2,
                 dh1_dpos |-> DH1, dh2_dpos |-> DH2Pos, dh2_dmom |-> DH2Mom,
                 dh_dpos |-> VAdd(DH1, DH2Pos), dh_dmom |-> DH2Mom,
                 jac |-> IF IsConstr THEN Jac(c.curved, Qs) ELSE << >>,
                 gradf |-> GradF(Qs), given |-> IF c.metric = "given" THEN c.given ELSE ""]))
=============================================================================
