------------------------------- MODULE SysGrad -------------------------------
(***************************************************************************)
(* C05: Hamiltonians and derivative methods of the system classes of       *)
(* mici/systems.py, decided by EXACT rational arithmetic on the model zoo's *)
(* polynomial model functions.                                              *)
(*                                                                          *)
(* The model functions (density F, constraint C, metric functions) are      *)
(* transcribed from harness/mbv/zoo.py; they are polynomials of degree <= 4 *)
(* in every coordinate, and so are the constant-metric Gram matrix and the  *)
(* position-dependent metrics, so the five-point stencil                    *)
(*     g'(x) = ( -g(x+2) + 8 g(x+1) - 8 g(x-1) + g(x-2) ) / 12               *)
(* is their EXACT partial derivative.  From these and the identities         *)
(*     d (1/2 log det A) = 1/2 tr(A^-1 dA),   d (1/2 p'A^-1 p) = -1/2 w' dA w *)
(* (w = A^-1 p) the true derivatives of the DOCUMENTED Hamiltonians          *)
(*     Euclidean           h1 = F                 h2 = 1/2 p'M^-1 p           *)
(*     Gaussian            h1 = F                 h2 = 1/2 q'q + 1/2 p'M^-1 p *)
(*     Constrained         h1 = F + 1/2 log det G  (G = J M^-1 J')            *)
(*     ConstrainedHausdorff h1 = F                                            *)
(*     GaussianConstrained h1 = F + 1/2 log det G, h2 as Gaussian             *)
(*     Riemannian (scalar / diag / chol / dense metric functions)            *)
(*                         h1 = F + 1/2 log det M(q), h2 = 1/2 p'M(q)^-1 p    *)
(* follow without transcribing any derivative formula of the implementation  *)
(* (nor the hand-written derivatives of the zoo).  TLC evaluates them at      *)
(* rational states and exports them; the real system objects must return the  *)
(* same values from h, h1, h2, dh1_dpos, dh2_dpos, dh2_dmom, dh_dpos, dh_dmom. *)
(***************************************************************************)
EXTENDS Integers, Sequences, FiniteSets, TLC, Json, RatMat

CONSTANT Cases     \* set of records [sys, metric, curved, st]

N == 3
Half == <<1, 2>>
QNeg(a) == <<-a[1], a[2]>>
RECURSIVE DotTo(_, _, _)
DotTo(u, v, k) == IF k = 0 THEN R(0) ELSE QAdd(DotTo(u, v, k - 1), QMul(u[k], v[k]))
Dot(u, v) == DotTo(u, v, Len(u))
Pow2(x) == QMul(x, x)
Pow4(x) == Pow2(Pow2(x))
Col(v) == [i \in 1..Len(v) |-> <<v[i]>>]
Row(v) == <<v>>
Shift(q, k, d) == [i \in 1..Len(q) |-> IF i = k THEN QAdd(q[i], R(d)) ELSE q[i]]

\* ---- the zoo's model functions (harness/mbv/zoo.py, Model(3)) -------------------------
F(q) == QAdd(QAdd(QMul(Half, Dot(q, q)),
                  QMul(<<1, 10>>, QAdd(QAdd(Pow4(q[1]), Pow4(q[2])), Pow4(q[3])))),
             QMul(<<3, 10>>, QMul(q[1], q[2])))

Cvec(curved, q) ==
  IF curved
  THEN << QSub(Dot(q, q), R(1)), QSub(q[3], QMul(<<3, 10>>, Pow2(q[1]))) >>
  ELSE << QSub(QAdd(q[1], QMul(Half, q[2])), <<1, 5>>), QAdd(QSub(q[3], QMul(<<3, 10>>, q[1])), <<1, 10>>) >>

ConstMetric(kind) ==
  CASE kind = "identity" -> MIdentity(N)
    [] kind = "diag" -> MDiag(<< <<3, 2>>, <<7, 10>>, R(2) >>)
    [] kind = "dense" -> << << R(2), <<3, 10>>, <<1, 10>> >>, << <<3, 10>>, R(1), <<-1, 5>> >>, << <<1, 10>>, <<-1, 5>>, <<3, 2>> >> >>

MetricFn(flavour, q) ==
  CASE flavour = "scalar" -> MScale(MIdentity(N), QAdd(R(1), QMul(Half, Dot(q, q))))
    [] flavour = "diag" -> MDiag([i \in 1..N |-> QAdd(R(1), Pow2(q[i]))])
    [] flavour = "dense" -> [i \in 1..N |-> [j \in 1..N |->
                               QAdd(IF i = j THEN QAdd(R(1), Pow2(q[i])) ELSE R(0), <<1, 5>>)]]
    [] flavour = "chol" ->
         LET L == [i \in 1..N |-> [j \in 1..N |->
                     IF i = j THEN QAdd(R(1), QMul(Half, Pow2(q[i])))
                     ELSE IF i = 2 /\ j = 1 THEN QMul(<<3, 10>>, q[1]) ELSE R(0)]]
         IN MMul(L, MTranspose(L))

\* ---- exact derivatives of polynomials of degree <= 4 ------------------------------------
Stencil(G(_), q, k) ==
  QMul(<<1, 12>>, QAdd(QAdd(QNeg(G(Shift(q, k, 2))), QMul(R(8), G(Shift(q, k, 1)))),
                       QAdd(QMul(R(-8), G(Shift(q, k, -1))), G(Shift(q, k, -2)))))
MStencil(G(_), q, k) ==
  MScale(MAdd(MAdd(MScale(G(Shift(q, k, 2)), R(-1)), MScale(G(Shift(q, k, 1)), R(8))),
              MAdd(MScale(G(Shift(q, k, -1)), R(-8)), G(Shift(q, k, -2)))), <<1, 12>>)

GradF(q) == [k \in 1..N |-> Stencil(F, q, k)]
Jac(curved, q) == [i \in 1..2 |-> [k \in 1..N |-> Stencil(LAMBDA x : Cvec(curved, x)[i], q, k)]]
Gram(curved, Mc, q) == LET J == Jac(curved, q) IN MMul(J, MMul(MInverse(Mc), MTranspose(J)))

HalfLogDetGrad(A(_), q) ==      \* gradient of 1/2 log det A(q)
  LET Ainv == MInverse(A(q)) IN [k \in 1..N |-> QMul(Half, MTrace(MMul(Ainv, MStencil(A, q, k))))]
KineticPosGrad(A(_), q, p) ==   \* gradient wrt q of 1/2 p' A(q)^-1 p
  LET w == MMul(MInverse(A(q)), Col(p))
  IN [k \in 1..N |-> QMul(<<-1, 2>>, MMul(MTranspose(w), MMul(MStencil(A, q, k), w))[1][1])]
Kinetic(A, p) == QMul(Half, MMul(Row(p), MMul(MInverse(A), Col(p)))[1][1])
VAdd(u, v) == [i \in 1..Len(u) |-> QAdd(u[i], v[i])]
Zero == [i \in 1..N |-> R(0)]

VARIABLE c
Init == c \in Cases
Next == UNCHANGED c
Spec == Init /\ [][Next]_c

Qs == c.st.q
Ps == c.st.p
IsRiem == c.sys = "Riemannian"
IsGauss == c.sys \in {"Gaussian", "GaussianConstrained"}
HasGramTerm == c.sys \in {"Constrained", "GaussianConstrained"}
IsConstr == c.sys \in {"Constrained", "ConstrainedHausdorff", "GaussianConstrained"}

Mq == IF IsRiem THEN MetricFn(c.metric, Qs) ELSE ConstMetric(c.metric)
G == Gram(c.curved, ConstMetric(c.metric), Qs)

\* the documented Hamiltonian: rational part, and the determinant whose half logarithm is added to h1
H1Poly == F(Qs)
H1Det == IF IsRiem THEN MDet(Mq) ELSE IF HasGramTerm THEN MDet(G) ELSE R(1)
H2 == QAdd(Kinetic(Mq, Ps), IF IsGauss THEN QMul(Half, Dot(Qs, Qs)) ELSE R(0))

DH1 == VAdd(GradF(Qs),
            IF IsRiem THEN HalfLogDetGrad(LAMBDA x : MetricFn(c.metric, x), Qs)
            ELSE IF HasGramTerm THEN HalfLogDetGrad(LAMBDA x : Gram(c.curved, ConstMetric(c.metric), x), Qs)
            ELSE Zero)
DH2Pos == IF IsRiem THEN KineticPosGrad(LAMBDA x : MetricFn(c.metric, x), Qs, Ps)
          ELSE IF IsGauss THEN Qs ELSE Zero
DH2Mom == LET w == MMul(MInverse(Mq), Col(Ps)) IN [i \in 1..N |-> w[i][1]]

\* sanity of the oracle itself (no implementation involved)
MetricPosDef == MIsPosDef(Mq)
GramPosDef == IsConstr => MIsPosDef(G)
\* Euler: the kinetic energy is homogeneous of degree 2 in Ps
KineticEuler == Dot(Ps, DH2Mom) = QMul(R(2), Kinetic(Mq, Ps))

Export ==
  PrintT(ToJson([sys |-> c.sys, metric |-> c.metric, curved |-> c.curved, q |-> Qs, p |-> Ps,
                 h1poly |-> H1Poly, h1det |-> H1Det, h2 |-> H2,
                 dh1_dpos |-> DH1, dh2_dpos |-> DH2Pos, dh2_dmom |-> DH2Mom,
                 dh_dpos |-> VAdd(DH1, DH2Pos), dh_dmom |-> DH2Mom,
                 jac |-> IF IsConstr THEN Jac(c.curved, Qs) ELSE << >>,
                 gradf |-> GradF(Qs)]))
=============================================================================
