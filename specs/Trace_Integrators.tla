-------------------------- MODULE Trace_Integrators --------------------------
(***************************************************************************)
(* Trace validation for Integrators.tla.  One trace = the sub-step events  *)
(* of ONE real Integrator.step call (flows with their time step, fixed-    *)
(* point solves with the time step captured by the fixed-point map,        *)
(* position / momentum projections, reverse checks) recorded through the   *)
(* public extension points, with measured flags (on manifold, in cotangent *)
(* space) and measured whole-step facts (round trip, input untouched,      *)
(* first-order consistency with Hamilton's equations over time eps).       *)
(* TLC takes one trace per initial state and evaluates the acceptance      *)
(* predicates as invariants.                                                *)
(***************************************************************************)
EXTENDS Integrators, TraceDataInt

VARIABLE q
TInit == q \in 1..Len(Traces) /\ free = <<>> /\ h1first = TRUE
TNext == UNCHANGED <<q, free, h1first>>
TraceSpec == TInit /\ [][TNext]_<<q, free, h1first>>

T == Traces[q]
P == Program(T.kind, T.N, T.free, T.h1first)
E == T.ev
Abs(x) == IF x < 0 THEN -x ELSE x
Tol == 3

EventMatches(e, p) == e.op = p.op /\ Abs(e.frac - p.frac) <= Tol

\* C02/C06: the events spell out the documented program (a failed step stops early)
FollowsProgram ==
  /\ Len(E) <= Len(P)
  /\ \A i \in 1..Len(E) : EventMatches(E[i], P[i])
  /\ (T.outcome = "ok" => Len(E) = Len(P))

\* C06: every component is integrated for exactly one step size
ObsBudget(op) == SumSeq([i \in 1..Len(E) |-> IF E[i].op = op /\ E[i].frac > 0 THEN E[i].frac ELSE 0])
TimeBudget ==
  T.outcome = "ok" =>
    /\ (T.kind \in {"leapfrog", "composition", "constrained", "implicit_leapfrog"} =>
          Abs(ObsBudget("h1_flow") - U) <= Tol * Len(E))
    /\ (T.kind \in {"leapfrog", "composition", "constrained"} => Abs(ObsBudget("h2_flow") - U) <= Tol * Len(E))
    /\ (T.kind = "implicit_leapfrog" => ObsBudget("fp") = 2 * H)
    /\ (T.kind = "implicit_midpoint" => ObsBudget("fp") = H)

\* C02: a step is returned only if every reverse check passed; a failed check raises
ReverseChecked ==
  /\ (T.outcome = "ok" => \A i \in 1..Len(E) : E[i].op = "rev" => E[i].ok)
  /\ (T.outcome = "NonReversibleStepError" => Len(E) > 0 /\ E[Len(E)].op = "rev" /\ ~E[Len(E)].ok)
  /\ (T.outcome = "ConvergenceError" => Len(E) > 0 /\ E[Len(E)].op \in {"fp", "proj_pos"} /\ ~E[Len(E)].ok)
  /\ T.outcome \in {"ok", "NonReversibleStepError", "ConvergenceError"}

\* C04: after every position projection the state is on the manifold, after every momentum
\* projection the momentum is in the cotangent space; a returned step satisfies both
StaysOnManifold ==
  T.kind = "constrained" =>
    /\ \A i \in 1..Len(E) : (E[i].op = "proj_pos" /\ E[i].ok => E[i].man) /\ (E[i].op = "proj_mom" => E[i].cot /\ E[i].man)
    /\ (T.outcome = "ok" => T.final_man /\ T.final_cot)
    /\ T.sampled_cot

\* C02: n steps, flip, n steps returns to the start; the input state object is never modified
\* (stress_ok: from hard states -- large momenta / steps, several solution branches -- every step that
\*  returned was undone by flip + step; otherwise it has to raise)
RoundTrip == (T.outcome = "ok" => T.roundtrip_ok) /\ T.stress_ok
\* ... and integrating back from a returned state does not raise either: a step whose reversal cannot be
\* computed has to raise itself instead of returning a state
ReverseReturns == T.stress_rev_ok
InputUntouched == T.input_untouched

\* C06 (necessary condition): the displacement over a small step is eps * (dH/dp, -dH/dq)
Consistent == T.outcome = "ok" => T.consistent_pos /\ T.consistent_mom

\* one verdict line per trace (the harness reads them; the invariants above can also be used
\* directly as INVARIANTs when a counterexample is wanted)
Verdict ==
  PrintT(ToJson([q |-> q, FollowsProgram |-> FollowsProgram, TimeBudget |-> TimeBudget,
                 ReverseChecked |-> ReverseChecked, StaysOnManifold |-> StaysOnManifold,
                 RoundTrip |-> RoundTrip, ReverseReturns |-> ReverseReturns, InputUntouched |-> InputUntouched, Consistent |-> Consistent]))
=============================================================================
