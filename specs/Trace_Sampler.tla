---------------------------- MODULE Trace_Sampler ----------------------------
(***************************************************************************)
(* Trace validation for Sampler.tla.  One trace = one real call of          *)
(* sample_chains: the events its probe transition / adapters appended (all  *)
(* processes append to ONE file opened O_APPEND, so the file order is a     *)
(* linearisation consistent with every process's own order and with the     *)
(* queue-induced causality) plus the observation returned by the call.      *)
(* Logged events are matched one to one with Iterate / Finalize actions;    *)
(* the remaining actions (stage start, chain hand-out, collection, ...) are *)
(* silent and inferred by TLC.                                              *)
(***************************************************************************)
EXTENDS Sampler, TraceDataSampler   \* Traces == << [cfg |-> i, ev |-> <<...>>, obs |-> ...], ... >>

VARIABLES tid, l

tvars == <<vars, tid, l>>

RegAcc(t) == 2 * t
RegLen(t) == 2 * t + 1
ASSUME \A t \in 1..Len(Traces) : TLCSet(RegAcc(t), 0) /\ TLCSet(RegLen(t), 0)

T == Traces[tid]
Ev == T.ev[l]
More == l <= Len(T.ev)

TraceInit == Init /\ tid \in {t \in 1..Len(Traces) : Traces[t].cfg = ci} /\ l = 1

Silent ==
  \/ StartStage \/ SeqInit \/ SeqNext
  \/ \E w \in 1..MaxW : WorkerTake(w) \/ WorkerDone(w)
  \/ ParentExitLoop \/ ParentCollect \/ Advance \/ ReturnEmpty
  \/ (Finalize /\ param' = param)          \* a finalisation that changes nothing is not logged

\* a logged iteration of chain c: stage s, stage-local iteration i, k iterations in total
IterEvent ==
  /\ More /\ Ev.ev = "Trans"
  /\ si = Ev.s
  /\ \/ (SeqIter /\ cur = Ev.c)
     \/ \E w \in 1..MaxW : WorkerIter(w) /\ wk[w].c = Ev.c
  /\ wst'[Ev.c][1] = Ev.k
  /\ it[Ev.c] + 1 = Ev.i

\* the interrupt fired inside transition.sample (nothing of the iteration happened) or inside
\* the trace function (the transition happened and logged its own Trans event before)
IntrEvent ==
  /\ More /\ Ev.ev = "Interrupt" /\ Ev.site = "trans"
  /\ si = Ev.s
  /\ \/ (SeqIter /\ cur = Ev.c)
     \/ \E w \in 1..MaxW : WorkerIter(w) /\ wk[w].c = Ev.c
  /\ cstat'[Ev.c] = "interrupted"

\* site "trace": the Trans event of the same iteration is logged first, then the Interrupt event;
\* in the spec both belong to one Iterate action, so the Interrupt event is consumed on its own
IntrTraceEvent ==
  /\ More /\ Ev.ev = "Interrupt" /\ Ev.site = "trace"
  /\ cstat[Ev.c] = "interrupted"
  /\ UNCHANGED vars

FinalEvent ==
  /\ More /\ Ev.ev = "AdFinal"
  /\ si = Ev.s
  /\ Finalize
  /\ param'[Ev.a] = FinP(Ev.s)

\* adapters of one stage are finalised one after the other (one event each, one spec action)
FinalEventMore ==
  /\ More /\ Ev.ev = "AdFinal"
  /\ phase = "advance" /\ si = Ev.s /\ param[Ev.a] = FinP(Ev.s)
  /\ UNCHANGED vars

TraceNext ==
  \/ (Silent /\ UNCHANGED <<tid, l>>)
  \/ ((IterEvent \/ IntrEvent \/ IntrTraceEvent \/ FinalEvent \/ FinalEventMore) /\ l' = l + 1 /\ tid' = tid)

TraceSpec == TraceInit /\ [][TraceNext]_tvars

ObsRows(rows) == [c \in Chains(CF) |-> [r \in 1..NRows(CF) |-> <<rows[c][r][1], rows[c][r][2]>>]]

Accepted ==
  /\ phase = "returned" /\ l = Len(T.ev) + 1
  /\ ObsRows(tr) = T.obs.tr
  /\ ObsRows(sr) = T.obs.sr
  /\ finals = T.obs.finals

Progress_ ==
  /\ TLCSet(RegLen(tid), IF TLCGet(RegLen(tid)) > l - 1 THEN TLCGet(RegLen(tid)) ELSE l - 1)
  /\ (Accepted => TLCSet(RegAcc(tid), 1))

AllAccepted ==
  LET rej == {t \in 1..Len(Traces) : TLCGet(RegAcc(t)) = 0}
  IN IF rej = {} THEN TRUE
     ELSE PrintT(ToJson([rejected |-> {<<t, TLCGet(RegLen(t))>> : t \in rej}])) /\ FALSE
=============================================================================
