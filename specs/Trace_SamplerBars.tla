-------------------------- MODULE Trace_SamplerBars --------------------------
(***************************************************************************)
(* Trace validation for SamplerBars.tla: the events of Trace_Sampler plus  *)
(* the calls the real sample_chains made on the progress-bar objects it    *)
(* was given (sequence assignment, __enter__, update, __exit__), all in    *)
(* the one O_APPEND event file.                                            *)
(*                                                                          *)
(* Grain of atomicity: in sequential mode the real update(i) is a separate *)
(* step after the iteration body, so here SeqIter leaves the bar alone and *)
(* the BarUpd event moves it; the exit of a completed chain demands that   *)
(* every update was seen.  In parallel mode BarUpd events are matched one  *)
(* to one with ParentShow; Enter / Exit / sequence events of the parent    *)
(* are checked against the state the silent actions produced.              *)
(***************************************************************************)
EXTENDS SamplerBars, TraceDataSampler

VARIABLES tid, l
tvars == <<allvars, tid, l>>

RegAcc(t) == 2 * t
RegLen(t) == 2 * t + 1
ASSUME \A t \in 1..Len(Traces) : TLCSet(RegAcc(t), 0) /\ TLCSet(RegLen(t), 0)

T == Traces[tid]
Ev == T.ev[l]
More == l <= Len(T.ev)

TraceInit == BInit /\ tid \in {t \in 1..Len(Traces) : Traces[t].cfg = ci} /\ l = 1

NoBar == UNCHANGED bvars

Silent ==
  \/ BStartStage
  \/ (SeqInit /\ InitFails(cur) /\ NoBar)
  \/ (SeqNext /\ ~bar[cur].on /\ NoBar)
  \/ \E w \in 1..MaxW : ((WorkerTake(w) \/ WorkerDone(w)) /\ NoBar)
  \/ BParentExitLoop \/ (ParentCollect /\ NoBar) \/ BAdvance \/ (ReturnEmpty /\ NoBar)
  \/ (Finalize /\ param' = param /\ NoBar)

IterEvent ==
  /\ More /\ Ev.ev = "Trans"
  /\ si = Ev.s
  /\ \/ (SeqIter /\ cur = Ev.c)
     \/ \E w \in 1..MaxW : WorkerIter(w) /\ wk[w].c = Ev.c
  /\ wst'[Ev.c][1] = Ev.k
  /\ it[Ev.c] + 1 = Ev.i
  /\ NoBar

IntrEvent ==
  /\ More /\ Ev.ev = "Interrupt" /\ Ev.site = "trans"
  /\ si = Ev.s
  /\ \/ (SeqIter /\ cur = Ev.c)
     \/ \E w \in 1..MaxW : WorkerIter(w) /\ wk[w].c = Ev.c
  /\ cstat'[Ev.c] = "interrupted"
  /\ NoBar

IntrTraceEvent ==
  /\ More /\ Ev.ev = "Interrupt" /\ Ev.site = "trace"
  /\ cstat[Ev.c] = "interrupted"
  /\ UNCHANGED allvars

FinalEvent ==
  /\ More /\ Ev.ev = "AdFinal"
  /\ si = Ev.s
  /\ Finalize
  /\ param'[Ev.a] = FinP(Ev.s)
  /\ NoBar

FinalEventMore ==
  /\ More /\ Ev.ev = "AdFinal"
  /\ phase = "advance" /\ si = Ev.s /\ param[Ev.a] = FinP(Ev.s)
  /\ UNCHANGED allvars

\* ---- progress-bar events -----------------------------------------------------------
\* the sequence of an inactive bar was set to the length of the stage
BarSeqEvent ==
  /\ More /\ Ev.ev = "BarSeq"
  /\ phase = "run" /\ ~Ev.active
  /\ bar[Ev.c].len = Ev.n /\ Ev.n = ST.n
  /\ UNCHANGED allvars

BarEnterEvent ==
  /\ More /\ Ev.ev = "BarEnter"
  /\ \/ /\ Seq_(CF) /\ SeqInit /\ cur = Ev.c /\ ~InitFails(cur)
        /\ bar' = [bar EXCEPT ![cur].on = TRUE, ![cur].shown = 0, ![cur].reset = TRUE]
        /\ UNCHANGED stagepos
     \/ /\ ~Seq_(CF) /\ phase = "run" /\ bar[Ev.c].on
        /\ UNCHANGED allvars

BarUpdEvent ==
  /\ More /\ Ev.ev = "BarUpd"
  /\ \/ /\ Seq_(CF) /\ phase = "run" /\ cur = Ev.c /\ bar[cur].on
        /\ it[cur] = Ev.i /\ bar[cur].shown = Ev.i - 1
        /\ bar' = [bar EXCEPT ![cur].shown = Ev.i]
        /\ UNCHANGED <<vars, stagepos>>
     \/ /\ Ev.i > 0 /\ ParentShow(Ev.c) /\ bar'[Ev.c].shown = Ev.i
     \/ /\ Ev.i = 0 /\ ParentReset(Ev.c)

BarExitEvent ==
  /\ More /\ Ev.ev = "BarExit"
  /\ \/ /\ Seq_(CF) /\ SeqNext /\ cur = Ev.c /\ bar[cur].on
        /\ (cstat[cur] = "done" => bar[cur].shown = it[cur])     \* every update was made before the bar closed
        /\ bar' = [bar EXCEPT ![cur].on = FALSE]
        /\ UNCHANGED stagepos
     \/ /\ ~Seq_(CF) /\ parent # "loop" /\ ~bar[Ev.c].on
        /\ UNCHANGED allvars

TraceNext ==
  \/ (Silent /\ UNCHANGED <<tid, l>>)
  \/ ((IterEvent \/ IntrEvent \/ IntrTraceEvent \/ FinalEvent \/ FinalEventMore
        \/ BarSeqEvent \/ BarEnterEvent \/ BarUpdEvent \/ BarExitEvent) /\ l' = l + 1 /\ tid' = tid)

TraceSpec == TraceInit /\ [][TraceNext]_tvars

ObsRows(rows) == [c \in Chains(CF) |-> [r \in 1..NRows(CF) |-> <<rows[c][r][1], rows[c][r][2]>>]]

Accepted ==
  /\ phase = "returned" /\ l = Len(T.ev) + 1
  /\ ObsRows(tr) = T.obs.tr
  /\ ObsRows(sr) = T.obs.sr
  /\ finals = T.obs.finals
  /\ \A c \in 1..3 : ~bar[c].on

Progress_ ==
  /\ TLCSet(RegLen(tid), IF TLCGet(RegLen(tid)) > l - 1 THEN TLCGet(RegLen(tid)) ELSE l - 1)
  /\ (Accepted => TLCSet(RegAcc(tid), 1))

AllAccepted ==
  LET rej == {t \in 1..Len(Traces) : TLCGet(RegAcc(t)) = 0}
  IN IF rej = {} THEN TRUE
     ELSE PrintT(ToJson([rejected |-> {<<t, TLCGet(RegLen(t))>> : t \in rej}])) /\ FALSE
=============================================================================
