-------------------------- MODULE Trace_StateCache --------------------------
(***************************************************************************)
(* Trace validation for StateCache.tla.  Each trace is the sequence of     *)
(* assignments, copies and (outermost) system-method calls recorded from a *)
(* REAL integrator step / transition of mici on logging ChainState objects. *)
(* The spec's own actions are replayed along the trace; at every call the  *)
(* user functions the implementation evaluated are compared with those the *)
(* decorator model evaluates, and Fresh / NoRecompute / the gradient bound  *)
(* are evaluated in every state.  Findings are printed (one JSON line each) *)
(* and do not stop the run, so that every trace is examined completely.     *)
(***************************************************************************)
EXTENDS StateCache, TraceDataSC      \* TraceDataSC: Traces == << <<event, ...>>, ... >>

VARIABLES tid, l, gevals, nposassign

tvars == <<vars, tid, l, gevals, nposassign>>

RegDone(t) == t

ASSUME \A t \in 1..Len(Traces) : TLCSet(RegDone(t), 0)

TraceInit ==
  /\ Init
  /\ tid \in 1..Len(Traces)
  /\ l = 1 /\ gevals = 0 /\ nposassign = 0

Ev == Traces[tid][l]

TraceNext ==
  /\ l <= Len(Traces[tid])
  /\ l' = l + 1 /\ tid' = tid
  /\ steps' = steps + 1
  /\ hist' = hist
  /\ \/ /\ Ev.op \in {"assign", "assign_ro"}
        /\ Assign(Ev.o, Ev.v)
        /\ nposassign' = nposassign + (IF Ev.v = "pos" THEN 1 ELSE 0)
        /\ gevals' = gevals
     \/ /\ Ev.op = "copy"
        /\ Copy(Ev.o, Ev.readonly)
        /\ Ev.n \in live'
        /\ UNCHANGED <<gevals, nposassign>>
     \/ /\ Ev.op = "call"
        /\ Call(Ev.s, Ev.m, Ev.o)
        /\ gevals' = gevals + (IF "grad_neg_log_dens" \in Ev.evald THEN 1 ELSE 0)
        /\ nposassign' = nposassign

TraceSpec == TraceInit /\ [][TraceNext]_tvars

\* ---- reporting invariants (always TRUE; they print what they find) ----------
Pos == [tid |-> tid, l |-> l - 1]

ReportEvals ==
  (l > 1 /\ last.op = "call" /\ last.evald # Traces[tid][l - 1].evald) =>
     PrintT(ToJson([kind |-> "evals", at |-> Pos, m |-> last.m, o |-> last.o,
                    spec |-> last.evald, impl |-> Traces[tid][l - 1].evald,
                    shouldHit |-> last.shouldHit]))

ReportFresh ==
  (l > 1 /\ last.op = "call" /\ ~last.fresh) =>
     PrintT(ToJson([kind |-> "stale", at |-> Pos, m |-> last.m, o |-> last.o]))

ReportRecompute ==
  (l > 1 /\ last.op = "call" /\ last.shouldHit /\ Traces[tid][l - 1].evald # {}) =>
     PrintT(ToJson([kind |-> "recompute", at |-> Pos, m |-> last.m, o |-> last.o,
                    impl |-> Traces[tid][l - 1].evald]))

\* C18 consequence: at most one gradient evaluation per new position (+1 for the first state)
ReportGradBound ==
  (l = Len(Traces[tid]) + 1 /\ gevals > nposassign + 1) =>
     PrintT(ToJson([kind |-> "gradbound", at |-> Pos, gevals |-> gevals, nposassign |-> nposassign]))

Consumed == (l = Len(Traces[tid]) + 1) => TLCSet(RegDone(tid), 1)

AllConsumed ==
  LET rej == {t \in 1..Len(Traces) : TLCGet(RegDone(t)) = 0}
  IN IF rej = {} THEN TRUE ELSE PrintT(ToJson([unconsumed |-> rej])) /\ FALSE
=============================================================================
