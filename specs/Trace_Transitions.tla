------------------------- MODULE Trace_Transitions -------------------------
(***************************************************************************)
(* Trace validation for Transitions.tla: every behaviour recorded from the *)
(* real mici transition classes (sequence of rng draws with the threshold   *)
(* the code compared against and the outcome, sequence of integrator steps  *)
(* with their result, returned state and statistics) must be a behaviour    *)
(* of the specification.  One initial state per trace id; the spec's own    *)
(* actions are reused unchanged, constrained to follow the recorded events. *)
(***************************************************************************)
EXTENDS Transitions, TraceData   \* TraceData: Traces == << record, ... >> (generated, literal)

VARIABLE tid

TBase == (Len(Cfgs) + 1) * MaxN * 2 * 2 * NP + 8
RegAcc(t) == TBase + 2 * t
RegLen(t) == TBase + 2 * t + 1

ASSUME \A t \in 1..Len(Traces) : TLCSet(RegAcc(t), 0) /\ TLCSet(RegLen(t), 0)

KindClass(k) == IF k \in {"level", "nstep"} THEN k ELSE "bern"

DrawMatches(d, t) ==
  /\ KindClass(d[1]) = t[1]
  /\ d[4] = t[4]
  /\ IF t[1] = "bern" THEN d[2] * t[3] = t[2] * d[3]       \* equal as rationals
     ELSE d[2] = t[2] /\ d[3] = t[3]

StepMatches(s, t) == s[1] = t[1] /\ s[2] = t[2] /\ s[3] = t[3]

Follows ==
  LET T == Traces[tid] IN
  /\ Len(draws) <= Len(T.draws)
  /\ Len(steps) <= Len(T.steps)
  /\ \A i \in 1..Len(draws) : DrawMatches(draws[i], T.draws[i])
  /\ \A i \in 1..Len(steps) : StepMatches(steps[i], T.steps[i])

TraceInit ==
  /\ Init
  /\ tid \in {t \in 1..Len(Traces) : <<Traces[t].c, Traces[t].start, Traces[t].sdir>> = triple}

TraceNext == Next /\ tid' = tid /\ Follows'

TraceSpec == TraceInit /\ [][TraceNext]_<<vars, tid>>

Accepted ==
  LET T == Traces[tid] IN
  /\ pc = "Ret"
  /\ Len(draws) = Len(T.draws) /\ Len(steps) = Len(T.steps)
  /\ endIdx = T.end
  /\ (~Dynamic(CF) => endDir = T.endDir)
  /\ nstep = T.nstep
  /\ (Dynamic(CF) => tdepth = T.tdepth /\ fDiv = T.fDiv)
  /\ fConv = T.fConv /\ fNonRev = T.fNonRev

\* evaluated in every reachable state: progress registers
Progress ==
  /\ TLCSet(RegLen(tid), Max(TLCGet(RegLen(tid)), Len(draws) + Len(steps)))
  /\ (Accepted => TLCSet(RegAcc(tid), 1))

AllAccepted ==
  LET rej == {t \in 1..Len(Traces) : TLCGet(RegAcc(t)) = 0}
  IN IF rej = {} THEN TRUE
     ELSE /\ PrintT(ToJson([rejected |-> {<<t, TLCGet(RegLen(t))>> : t \in rej}]))
          /\ FALSE
=============================================================================
