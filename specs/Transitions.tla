---------------------------- MODULE Transitions ----------------------------
(***************************************************************************)
(* The four trajectory-based Markov transitions of mici/transitions.py on  *)
(* a finite abstract integrator orbit.                                      *)
(*                                                                          *)
(* One PlusCal step per rng draw, per integrator step, per merge /         *)
(* termination test, exactly in the order the implementation performs      *)
(* them (sample(), _build_tree(), _sample_n_step()).  Every draw carries    *)
(* its exact probability <<num, den>>; the product along a behaviour is    *)
(* carried as residues modulo four 15-bit primes in `mass`.                 *)
(*                                                                          *)
(* The orbit (constants, module TransConsts, generated per run):           *)
(*   states 1..N on a path; stepping from i in direction d reaches i+d     *)
(*   unless edge brk[..] carries an error kind (1 = ConvergenceError,      *)
(*   2 = NonReversibleStepError); both ends always carry one.              *)
(*   W[i] integer weight exp(-h) (0 = infinite energy), nan[i] = energy    *)
(*   evaluates to NaN, Q[i]/P[i] integer position/momentum (identity       *)
(*   metric: velocity = momentum).                                          *)
(***************************************************************************)
EXTENDS Integers, Sequences, FiniteSets, TLC, Json, TransConsts

Primes == <<32749, 32719, 32717, 32713>>
NP == 4

RECURSIVE PowMod(_, _, _)
PowMod(b, e, p) ==
  IF e = 0 THEN 1
  ELSE LET h == PowMod(b, e \div 2, p)
           hh == (h * h) % p
       IN IF e % 2 = 1 THEN (hh * b) % p ELSE hh
InvMod(b, p) == PowMod(b % p, p - 2, p)
MulMass(m, num, den) ==
  [k \in 1..NP |->
     (((m[k] * (num % Primes[k])) % Primes[k]) * InvMod(den, Primes[k])) % Primes[k]]

Min(a, b) == IF a < b THEN a ELSE b
Max(a, b) == IF a > b THEN a ELSE b

Dynamic(cf) == cf.kernel \in {"multinomial", "slice"}

\* every start of positive target mass (both directions for the Metropolis kernels, whose
\* state space includes the direction flag)
AllTriples ==
  {<<cc, x, d>> \in CfgSet \X (1..16) \X {1, -1} :
      /\ x <= Cfgs[cc].N /\ Cfgs[cc].W[x] > 0 /\ ~Cfgs[cc].nan[x]
      /\ (Dynamic(Cfgs[cc]) => d = 1)}
InitTriples == IF UseAllTriples THEN AllTriples ELSE ExplicitTriples

\* error kind met when stepping from i in direction d (0 = the step succeeds)
StepErr(cf, i, d) == IF d = 1 THEN cf.brk[i + 1] ELSE cf.brk[i]

\* effective weight exp(-h): NaN energy is treated as +inf energy by the code
EffW(cf, x) == IF cf.nan[x] THEN 0 ELSE cf.W[x]

\* candidate weight of state x (multinomial: exp(-h); slice: indicator of the slice)
Wt(cf, lv, x) == IF cf.kernel = "slice" THEN (IF EffW(cf, x) >= lv THEN 1 ELSE 0)
                 ELSE EffW(cf, x)

\* divergence test: h - h_init > log K (multinomial), h + log_u > log K (slice)
Diverges(cf, lv, st, x) ==
  /\ cf.K # 0
  /\ IF cf.kernel = "slice" THEN lv - 1 >= cf.K * EffW(cf, x)
     ELSE cf.W[st] > cf.K * EffW(cf, x)

Crit(cf, a, b, S) ==
  IF cf.crit = "euclid"
  THEN \/ cf.P[a] * (cf.Q[b] - cf.Q[a]) < 0
       \/ cf.P[b] * (cf.Q[b] - cf.Q[a]) < 0
  ELSE \/ cf.P[a] * S < 0
       \/ cf.P[b] * S < 0

TermCrit(cf, t, ns, ps) ==
  \/ Crit(cf, t.neg, t.pos, t.sum)
  \/ /\ t.depth > 1
     /\ cf.extra
     /\ \/ Crit(cf, ns.neg, ps.neg, ns.sum + cf.P[ps.neg])
        \/ Crit(cf, ns.pos, ps.pos, ps.sum + cf.P[ns.pos])

Leaf(cf, lv, x) == [neg |-> x, pos |-> x, sum |-> cf.P[x], w |-> Wt(cf, lv, x), depth |-> 0]
Merge(ns, ps) == [neg |-> ns.neg, pos |-> ps.pos, sum |-> ns.sum + ps.sum,
                  w |-> ns.w + ps.w, depth |-> ns.depth + 1]
NullTree == [neg |-> 0, pos |-> 0, sum |-> 0, w |-> 0, depth |-> 0]

RECURSIVE SumP(_, _, _)
SumP(cf, a, b) == IF a > b THEN 0 ELSE cf.P[a] + SumP(cf, a + 1, b)
RECURSIVE SumWt(_, _, _, _)
SumWt(cf, lv, a, b) == IF a > b THEN 0 ELSE Wt(cf, lv, a) + SumWt(cf, lv, a + 1, b)
RECURSIVE Pow2(_)
Pow2(n) == IF n = 0 THEN 1 ELSE 2 * Pow2(n - 1)

\* outcomes a Bernoulli(num/den) draw `u < p` can have
Outcomes(num, den) == IF num <= 0 THEN {FALSE} ELSE IF num >= den THEN {TRUE} ELSE {TRUE, FALSE}
ProbOf(b, num, den) == IF b THEN <<num, den>> ELSE <<den - num, den>>

(***************************************************************************
--algorithm Trans {
  variables
    triple \in InitTriples,     \* <<configuration, start state, start direction>>
    c = triple[1],
    start = triple[2],
    sdir = triple[3],
    mass = [k \in 1..NP |-> 1],
    draws = <<>>,        \* history: <<kind, num, den, outcome>>
    steps = <<>>,        \* history: <<from, dir, errkind>>
    lvl = 0, dirn = 1,
    tree = NullTree, next = 0, depth = 0, tdepth = 0,
    nstep = 0, sumacc = 0, rejnum = 1, rejden = 1,
    fDiv = FALSE, fConv = FALSE, fNonRev = FALSE,
    rTerm = FALSE, rTree = NullTree, rProp = 0,
    cur = 0, mN = 0, mI = 0, mErr = FALSE, accnum = 0,
    endIdx = 0, endDir = 0;

  define {
    CF == Cfgs[c]
    Ws == CF.W[start]
  }

  \* ------------------------------------------------------------------
  \* DynamicIntegrationTransition._build_tree(depth = bd, state = bs)
  \* results in rTerm / rTree / rProp
  \* ------------------------------------------------------------------
  procedure BuildTree(bd, bs)
    variables inner = NullTree, innerProp = 0, outer = NullTree, outerProp = 0,
              merged = NullTree;
  {
  BT0:
    if (bd = 0) {
      \* integrator.step(state): may raise an IntegratorError subclass
      if (StepErr(CF, bs, dirn) # 0) {
        steps := Append(steps, <<bs, dirn, StepErr(CF, bs, dirn)>>);
        if (StepErr(CF, bs, dirn) = 1) { fConv := TRUE } else { fNonRev := TRUE };
        rTerm := TRUE; rTree := NullTree; rProp := 0;
        return;
      } else {
        steps := Append(steps, <<bs, dirn, 0>>);
        \* stats updated before the divergence test
        nstep := nstep + 1;
        sumacc := sumacc + Min(Ws, EffW(CF, bs + dirn));
        if (Diverges(CF, lvl, start, bs + dirn)) {
          fDiv := TRUE;
          rTerm := TRUE; rTree := NullTree; rProp := 0;
        } else {
          rTerm := FALSE; rTree := Leaf(CF, lvl, bs + dirn); rProp := bs + dirn;
        };
        return;
      }
    } else {
      call BuildTree(bd - 1, bs);
  BT1:
      if (rTerm) { rTree := NullTree; rProp := 0; return; }
      else { inner := rTree; innerProp := rProp; };
  BT2:
      call BuildTree(bd - 1, IF dirn = 1 THEN inner.pos ELSE inner.neg);
  BT3:
      if (rTerm) { rTree := NullTree; rProp := 0; return; }
      else {
        outer := rTree; outerProp := rProp;
        merged := IF dirn = 1 THEN Merge(inner, rTree) ELSE Merge(rTree, inner);
      };
  BT4:
      \* proposal = outer_proposal if rng.uniform() < w_outer / w_tree else inner_proposal
      with (b \in Outcomes(IF merged.w = 0 THEN 0 ELSE outer.w, Max(merged.w, 1))) {
        draws := Append(draws, <<"sub", IF merged.w = 0 THEN 0 ELSE outer.w, Max(merged.w, 1), b>>);
        mass := MulMass(mass, ProbOf(b, IF merged.w = 0 THEN 0 ELSE outer.w, Max(merged.w, 1))[1],
                              ProbOf(b, IF merged.w = 0 THEN 0 ELSE outer.w, Max(merged.w, 1))[2]);
        rProp := IF b THEN outerProp ELSE innerProp;
      };
      rTerm := IF dirn = 1 THEN TermCrit(CF, merged, inner, outer)
               ELSE TermCrit(CF, merged, outer, inner);
      rTree := merged;
      return;
    }
  }

  {
  Start:
    if (Dynamic(CF)) {
      \* ---------------- DynamicIntegrationTransition.sample ----------------
      if (CF.kernel = "slice") {
        \* log_u = log(uniform) - h_init : the slice level, discretised exactly
        with (l \in 1..Ws) {
          lvl := l;
          draws := Append(draws, <<"level", l, Ws, TRUE>>);
          mass := MulMass(mass, 1, Ws);
        }
      };
  InitTree:
      tree := Leaf(CF, lvl, start);
      next := start;
      depth := 0;
  Loop:
      while (depth < CF.maxdepth) {
        tdepth := depth;
        with (d \in {1, -1}) {
          dirn := d;
          draws := Append(draws, <<"dir", 1, 2, d = 1>>);
          mass := MulMass(mass, 1, 2);
        };
  Expand:
        call BuildTree(depth, IF dirn = 1 THEN tree.pos ELSE tree.neg);
  AfterExpand:
        if (rTerm) { goto Finish; };
  Accept:
        \* if rng.uniform() < min(1, w_new / w_tree): next_state = new_proposal
        with (b \in Outcomes(rTree.w, tree.w)) {
          draws := Append(draws, <<"top", Min(rTree.w, tree.w), tree.w, b>>);
          mass := MulMass(mass, ProbOf(b, Min(rTree.w, tree.w), tree.w)[1], tree.w);
          if (b) { next := rProp; };
          \* reject_prob *= 1 - accept_proposal_prob
          rejnum := rejnum * (tree.w - Min(rTree.w, tree.w));
          rejden := rejden * tree.w;
        };
  MergeTop:
        if (dirn = 1) {
          if (TermCrit(CF, Merge(tree, rTree), tree, rTree)) {
            tree := Merge(tree, rTree); goto Finish;
          } else { tree := Merge(tree, rTree); }
        } else {
          if (TermCrit(CF, Merge(rTree, tree), rTree, tree)) {
            tree := Merge(rTree, tree); goto Finish;
          } else { tree := Merge(rTree, tree); }
        };
  NextDepth:
        depth := depth + 1;
      };
  Finish:
      endIdx := next;
      endDir := 1;
    } else {
      \* ---------------- MetropolisIntegrationTransition ----------------
      if (CF.kernel = "random") {
        \* n_step = rng.integers(lo, hi): uniform on lo..hi-1 (NumPy semantics)
        with (n \in CF.lo..(CF.hi - 1)) {
          mN := n;
          draws := Append(draws, <<"nstep", n, CF.hi - CF.lo, TRUE>>);
          mass := MulMass(mass, 1, CF.hi - CF.lo);
        }
      } else { mN := CF.nstep; };
  MInit:
      cur := start; mI := 0;
  MLoop:
      while (mI < mN /\ ~mErr) {
        if (StepErr(CF, cur, sdir) # 0) {
          steps := Append(steps, <<cur, sdir, StepErr(CF, cur, sdir)>>);
          if (StepErr(CF, cur, sdir) = 1) { fConv := TRUE } else { fNonRev := TRUE };
          mErr := TRUE;
        } else {
          steps := Append(steps, <<cur, sdir, 0>>);
          cur := cur + sdir;
          mI := mI + 1;
        }
      };
  MAccept:
      nstep := mI;
      \* metrop_accept_prob = min(1, W_end / W_start) unless no step was taken
      accnum := IF cur = start THEN 0 ELSE Min(Ws, EffW(CF, cur));
      if (mErr) {
        \* rejected: the direction of the *input* state is flipped
        endIdx := start; endDir := -sdir;
      } else {
        with (b \in Outcomes(accnum, Ws)) {
          draws := Append(draws, <<"metro", accnum, Ws, b>>);
          mass := MulMass(mass, ProbOf(b, accnum, Ws)[1], Ws);
          if (b) { endIdx := cur; endDir := sdir; }
          else { endIdx := start; endDir := -sdir; }
        }
      };
      sumacc := IF mErr THEN 0 ELSE accnum;
    };
  Ret:
    skip;
  }
}
 ***************************************************************************)
\* BEGIN TRANSLATION
\* END TRANSLATION

-----------------------------------------------------------------------------
(* Properties *)

AtDone == pc = "Ret"
InDynLoop == pc \in {"Loop", "Expand", "AfterExpand", "Accept", "MergeTop", "NextDepth"}

\* The trajectory tree is a contiguous interval of 2^depth orbit states containing
\* the start state; its weight and momentum sum are those of the interval, and the
\* current candidate lies in it and has positive weight.
TreeShape ==
  (Dynamic(CF) /\ InDynLoop) =>
     /\ tree.neg <= start /\ start <= tree.pos
     /\ tree.pos - tree.neg + 1 = Pow2(tree.depth)
     /\ tree.w = SumWt(CF, lvl, tree.neg, tree.pos)
     /\ tree.sum = SumP(CF, tree.neg, tree.pos)
     /\ IF pc = "MergeTop"
        THEN next >= Min(tree.neg, rTree.neg) /\ next <= Max(tree.pos, rTree.pos)
        ELSE next >= tree.neg /\ next <= tree.pos
     /\ Wt(CF, lvl, next) > 0
     /\ (pc \in {"Loop", "NextDepth"} => tree.depth = depth + (IF pc = "NextDepth" THEN 1 ELSE 0))

\* A sub-tree returned by BuildTree without termination is a contiguous block adjacent
\* to the current tree on the side of the chosen direction, of the requested size.
SubTreeShape ==
  (Dynamic(CF) /\ pc = "AfterExpand" /\ ~rTerm) =>
     /\ rTree.pos - rTree.neg + 1 = Pow2(depth)
     /\ rTree.depth = depth
     /\ (dirn = 1 => rTree.neg = tree.pos + 1)
     /\ (dirn = -1 => rTree.pos = tree.neg - 1)
     /\ rTree.w = SumWt(CF, lvl, rTree.neg, rTree.pos)
     /\ rTree.sum = SumP(CF, rTree.neg, rTree.pos)
     /\ rProp >= rTree.neg /\ rProp <= rTree.pos
     /\ (rTree.w > 0 => Wt(CF, lvl, rProp) > 0)

OkSteps == Cardinality({i \in 1..Len(steps) : steps[i][3] = 0})

\* Reported statistics at return (C01 last sentence, C12 flags)
StatsExact ==
  AtDone =>
     /\ nstep = OkSteps
     /\ Dynamic(CF) => (tdepth <= CF.maxdepth - 1)
     /\ fConv = (\E i \in 1..Len(steps) : steps[i][3] = 1)
     /\ fNonRev = (\E i \in 1..Len(steps) : steps[i][3] = 2)

\* C12: the returned state is the start state or a state visited by a successful step,
\* with finite (non-NaN, non-infinite) energy.
Contained ==
  AtDone =>
     /\ endIdx \in 1..CF.N
     /\ EffW(CF, endIdx) > 0
     /\ \/ endIdx = start
        \/ \E i \in 1..Len(steps) : steps[i][3] = 0 /\ steps[i][1] + steps[i][2] = endIdx

TypeOK ==
  /\ c \in CfgSet
  /\ start \in 1..CF.N
  /\ nstep >= 0 /\ sumacc >= 0

\* ---- exact stationarity by mass registers -------------------------------
\* register layout (per configuration c, end state z, direction flag f, prime k)
MaxN == 16
RegIn(cc, z, f, k) == ((((cc - 1) * MaxN + (z - 1)) * 2 + f) * 2 + 0) * NP + k
RegOut(cc, z, f, k) == ((((cc - 1) * MaxN + (z - 1)) * 2 + f) * 2 + 1) * NP + k
Flag(d) == IF d = 1 THEN 0 ELSE 1

AllRegs == {RegIn(cc, z, f, k) : cc \in CfgSet, z \in 1..MaxN, f \in {0, 1}, k \in 1..NP}
           \cup {RegOut(cc, z, f, k) : cc \in CfgSet, z \in 1..MaxN, f \in {0, 1}, k \in 1..NP}

ASSUME \A r \in AllRegs : TLCSet(r, 0)

\* Evaluated once per distinct terminal state (the draw history keeps behaviours apart):
\*   In[c, end]   += W[start] * mass       (flow of target mass into the end state)
\*   Out[c, start] += mass                 (total probability leaving the start state)
Accumulate ==
  AtDone =>
    /\ \A k \in 1..NP :
         /\ TLCSet(RegIn(c, endIdx, Flag(endDir), k),
                   (TLCGet(RegIn(c, endIdx, Flag(endDir), k)) + ((Ws * mass[k]) % Primes[k])) % Primes[k])
         /\ TLCSet(RegOut(c, start, Flag(sdir), k),
                   (TLCGet(RegOut(c, start, Flag(sdir), k)) + mass[k]) % Primes[k])
    /\ PrintT(ToJson([c |-> c, start |-> start, sdir |-> sdir, endIdx |-> endIdx, endDir |-> endDir,
                      draws |-> draws, steps |-> steps, nstep |-> nstep, sumacc |-> sumacc,
                      tdepth |-> tdepth, rejnum |-> rejnum, rejden |-> rejden,
                      fDiv |-> fDiv, fConv |-> fConv, fNonRev |-> fNonRev, lvl |-> lvl]))

Dirs(cf) == IF Dynamic(cf) THEN {1} ELSE {1, -1}

\* POSTCONDITION: for every configuration, end state and direction flag, the target mass
\* flowing in equals the target mass of the state (x 1 for dynamic kernels, whose state space
\* has no direction; for Metropolis kernels each (z, dir) has target mass W[z], the 1/2 cancels);
\* and the probabilities leaving every start state sum to one.
StationaryCfg(cc) ==
  \A z \in 1..Cfgs[cc].N : \A d \in Dirs(Cfgs[cc]) : \A k \in 1..NP :
     /\ TLCGet(RegIn(cc, z, Flag(d), k)) = (EffW(Cfgs[cc], z) % Primes[k])
     /\ (EffW(Cfgs[cc], z) > 0 => TLCGet(RegOut(cc, z, Flag(d), k)) = 1)

Stationary ==
  LET bad == {cc \in CfgSet : Cfgs[cc].expectStationary /\ ~StationaryCfg(cc)}
  IN IF bad = {} THEN TRUE ELSE PrintT(ToJson([nonstationary |-> bad])) /\ FALSE
=============================================================================
