------------------------------- MODULE ZooModel -------------------------------
(***************************************************************************)
(* The model zoo's polynomial model functions (harness/mbv/zoo.py,         *)
(* Model(3)) in exact rational arithmetic, with exact partial derivatives  *)
(* by a five-point stencil (all functions are polynomials of degree <= 4    *)
(* in every coordinate).  Shared by SysGrad.tla (C05) and FlowExact.tla     *)
(* (C07); the harness cross-checks the transcription against the zoo.       *)
(***************************************************************************)
EXTENDS Integers, Sequences, FiniteSets, TLC, RatMatE

N == 3
Half == <<1, 2>>
QNeg(a) == <<-a[1], a[2]>>
RECURSIVE DotTo(_, _, _)
DotTo(u, v, k) == IF k = 0 THEN R(0) ELSE QAdd(DotTo(u, v, k - 1), QMul(u[k], v[k]))
Dot(u, v) == DotTo(u, v, Len(u))
Pow2(x) == QMul(x, x)
Pow4(x) == Pow2(Pow2(x))
Col(v) == TLCEval([i \in 1..Len(v) |-> <<v[i]>>])
Row(v) == <<v>>
Shift(q, k, d) == TLCEval([i \in 1..Len(q) |-> IF i = k THEN QAdd(q[i], R(d)) ELSE q[i]])

\* ---- the zoo's model functions (harness/mbv/zoo.py, Model(3)) -------------------------
F(q) == QAdd(QAdd(QMul(Half, Dot(q, q)),
                  QMul(<<1, 10>>, QAdd(QAdd(Pow4(q[1]), Pow4(q[2])), Pow4(q[3])))),
             QMul(<<3, 10>>, QMul(q[1], q[2])))

Cvec(curved, q) ==
  IF curved
  THEN << QSub(Dot(q, q), R(1)), QSub(q[3], QMul(<<3, 10>>, Pow2(q[1]))) >>
  ELSE << QSub(QAdd(q[1], QMul(Half, q[2])), <<1, 5>>), QAdd(QSub(q[3], QMul(<<3, 10>>, q[1])), <<1, 10>>) >>

ConstMetric(kind) ==
  CASE kind = "identity" -> MIdentity(N)
    [] kind = "diag" -> MDiag(<< <<3, 2>>, <<7, 10>>, R(2) >>)
    [] kind = "dense" -> << << R(2), <<3, 10>>, <<1, 10>> >>, << <<3, 10>>, R(1), <<-1, 5>> >>, << <<1, 10>>, <<-1, 5>>, <<3, 2>> >> >>

MetricFn(flavour, q) ==
  CASE flavour = "scalar" -> MScale(MIdentity(N), QAdd(R(1), QMul(Half, Dot(q, q))))
    [] flavour = "diag" -> MDiag(TLCEval([i \in 1..N |-> QAdd(R(1), Pow2(q[i]))]))
    [] flavour = "dense" -> TLCEval([i \in 1..N |-> [j \in 1..N |->
                               QAdd(IF i = j THEN QAdd(R(1), Pow2(q[i])) ELSE R(0), <<1, 5>>)]])
    [] flavour \in {"chol", "cholneg"} ->      \* ("cholneg": the factor -L, the same metric)
         LET L == TLCEval([i \in 1..N |-> [j \in 1..N |->
                     IF i = j THEN QAdd(R(1), QMul(Half, Pow2(q[i])))
                     ELSE IF i = 2 /\ j = 1 THEN QMul(<<3, 10>>, q[1]) ELSE R(0)]])
         IN MMul(L, MTranspose(L))

\* ---- exact derivatives of polynomials of degree <= 4 ------------------------------------
Stencil(G(_), q, k) ==
  QMul(<<1, 12>>, QAdd(QAdd(QNeg(G(Shift(q, k, 2))), QMul(R(8), G(Shift(q, k, 1)))),
                       QAdd(QMul(R(-8), G(Shift(q, k, -1))), G(Shift(q, k, -2)))))
MStencil(G(_), q, k) ==
  MScale(MAdd(MAdd(MScale(G(Shift(q, k, 2)), R(-1)), MScale(G(Shift(q, k, 1)), R(8))),
              MAdd(MScale(G(Shift(q, k, -1)), R(-8)), G(Shift(q, k, -2)))), <<1, 12>>)

GradF(q) == TLCEval([k \in 1..N |-> Stencil(F, q, k)])
Jac(curved, q) == TLCEval([i \in 1..2 |-> [k \in 1..N |-> Stencil(LAMBDA x : Cvec(curved, x)[i], q, k)]])
Gram(curved, Mc, q) == LET J == Jac(curved, q) IN MMul(J, MMul(MInverse(Mc), MTranspose(J)))

HalfLogDetGrad(A(_), q) ==      \* gradient of 1/2 log det A(q)
  LET Ainv == MInverse(A(q)) IN TLCEval([k \in 1..N |-> QMul(Half, MTrace(MMul(Ainv, MStencil(A, q, k))))])
KineticPosGrad(A(_), q, p) ==   \* gradient wrt q of 1/2 p' A(q)^-1 p
  LET w == MMul(MInverse(A(q)), Col(p))
  IN TLCEval([k \in 1..N |-> QMul(<<-1, 2>>, MMul(MTranspose(w), MMul(MStencil(A, q, k), w))[1][1])])
Kinetic(A, p) == QMul(Half, MMul(Row(p), MMul(MInverse(A), Col(p)))[1][1])
VAdd(u, v) == TLCEval([i \in 1..Len(u) |-> QAdd(u[i], v[i])])
Zero == [i \in 1..N |-> R(0)]
=============================================================================
