--------------------------------- MODULE Rat ---------------------------------
(* Exact rational arithmetic for TLC: a rational is <<num, den>> with den > 0 and
   gcd(|num|, den) = 1.  All intermediate products must stay below 2^31. *)
EXTENDS Integers

RAbs(x) == IF x < 0 THEN -x ELSE x
RECURSIVE RGcd(_, _)
RGcd(a, b) == IF b = 0 THEN a ELSE RGcd(b, a % b)
RNorm(n, d) ==
  LET s == IF d < 0 THEN -1 ELSE 1
      g == RGcd(RAbs(n), RAbs(d))
  IN IF n = 0 THEN <<0, 1>> ELSE <<(s * n) \div g, (s * d) \div g>>
R(n) == <<n, 1>>
\* (additions over the lcm of the denominators and cross-cancelled products keep intermediates small)
RAdd(a, b) == LET g == RGcd(a[2], b[2]) IN RNorm(a[1] * (b[2] \div g) + b[1] * (a[2] \div g), (a[2] \div g) * b[2])
RSub(a, b) == LET g == RGcd(a[2], b[2]) IN RNorm(a[1] * (b[2] \div g) - b[1] * (a[2] \div g), (a[2] \div g) * b[2])
RMul(a, b) == LET g1 == RGcd(RAbs(a[1]), b[2]) g2 == RGcd(RAbs(b[1]), a[2])
                  h1 == IF g1 = 0 THEN 1 ELSE g1
                  h2 == IF g2 = 0 THEN 1 ELSE g2
              IN RNorm((a[1] \div h1) * (b[1] \div h2), (a[2] \div h2) * (b[2] \div h1))
RDiv(a, b) == RNorm(a[1] * b[2], a[2] * b[1])
RNeg(a) == <<-a[1], a[2]>>
RLt(a, b) == a[1] * b[2] < b[1] * a[2]
RLe(a, b) == a[1] * b[2] <= b[1] * a[2]
RIsPos(a) == a[1] > 0
=============================================================================
