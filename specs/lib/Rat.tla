--------------------------------- MODULE Rat ---------------------------------
(* Exact rational arithmetic for TLC: a rational is <<num, den>> with den > 0 and
   gcd(|num|, den) = 1.  All intermediate products must stay below 2^31. *)
EXTENDS Integers

RAbs(x) == IF x < 0 THEN -x ELSE x
RECURSIVE RGcd(_, _)
RGcd(a, b) == IF b = 0 THEN a ELSE RGcd(b, a % b)
RNorm(n, d) ==
  LET s == IF d < 0 THEN -1 ELSE 1
      g == RGcd(RAbs(n), RAbs(d))
  IN IF n = 0 THEN <<0, 1>> ELSE <<(s * n) \div g, (s * d) \div g>>
R(n) == <<n, 1>>
RAdd(a, b) == RNorm(a[1] * b[2] + b[1] * a[2], a[2] * b[2])
RSub(a, b) == RNorm(a[1] * b[2] - b[1] * a[2], a[2] * b[2])
RMul(a, b) == RNorm(a[1] * b[1], a[2] * b[2])
RDiv(a, b) == RNorm(a[1] * b[2], a[2] * b[1])
RNeg(a) == <<-a[1], a[2]>>
RLt(a, b) == a[1] * b[2] < b[1] * a[2]
RLe(a, b) == a[1] * b[2] <= b[1] * a[2]
RIsPos(a) == a[1] > 0
=============================================================================
