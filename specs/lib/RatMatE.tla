------------------------------- MODULE RatMatE ------------------------------
(* EAGER variant of RatMat (same operators): every matrix-valued operator forces its result with TLCEval, so
   that nested expressions (inverse of a product of ...) are not re-evaluated entry by entry by TLC's lazy
   function values.  Used by the heavier oracles (ZooModel / SysGrad / FlowExact).
   Exact matrices of rationals <<num, den>> (module Rat), sizes 1..3 for inverse/determinant.
   A matrix is a sequence of rows.  Additions use the lcm of the denominators so that dyadic
   inputs (denominators powers of two) stay small. *)
EXTENDS Integers, Sequences, TLC, Rat

QAdd(a, b) == LET g == RGcd(a[2], b[2])
              IN RNorm(a[1] * (b[2] \div g) + b[1] * (a[2] \div g), (a[2] \div g) * b[2])
QSub(a, b) == QAdd(a, RNeg(b))
QMul(a, b) == LET g1 == RGcd(RAbs(a[1]), b[2]) g2 == RGcd(RAbs(b[1]), a[2])
                  h1 == IF g1 = 0 THEN 1 ELSE g1
                  h2 == IF g2 = 0 THEN 1 ELSE g2
              IN RNorm((a[1] \div h1) * (b[1] \div h2), (a[2] \div h2) * (b[2] \div h1))
QDiv(a, b) == QMul(a, IF b[1] < 0 THEN <<-b[2], -b[1]>> ELSE <<b[2], b[1]>>)

NRows(m) == Len(m)
NCols(m) == Len(m[1])
MIdentity(n) == TLCEval([i \in 1..n |-> [j \in 1..n |-> IF i = j THEN R(1) ELSE R(0)]])
MTranspose(m) == TLCEval([j \in 1..NCols(m) |-> [i \in 1..NRows(m) |-> m[i][j]]])
MScale(m, r) == TLCEval([i \in 1..NRows(m) |-> [j \in 1..NCols(m) |-> QMul(m[i][j], r)]])
MAdd(a, b) == TLCEval([i \in 1..NRows(a) |-> [j \in 1..NCols(a) |-> QAdd(a[i][j], b[i][j])]])
MSub(a, b) == TLCEval([i \in 1..NRows(a) |-> [j \in 1..NCols(a) |-> QSub(a[i][j], b[i][j])]])

RECURSIVE DotFrom(_, _, _, _, _)
DotFrom(a, b, i, j, k) == IF k = 0 THEN R(0) ELSE QAdd(DotFrom(a, b, i, j, k - 1), QMul(a[i][k], b[k][j]))
MMul(a, b) == TLCEval([i \in 1..NRows(a) |-> [j \in 1..NCols(b) |-> DotFrom(a, b, i, j, NCols(a))]])

\* determinant and inverse for n <= 3 (cofactor expansion)
Det2(a, b, c, d) == QSub(QMul(a, d), QMul(b, c))
MDet(m) ==
  CASE NRows(m) = 1 -> m[1][1]
    [] NRows(m) = 2 -> Det2(m[1][1], m[1][2], m[2][1], m[2][2])
    [] NRows(m) = 3 ->
         QAdd(QSub(QMul(m[1][1], Det2(m[2][2], m[2][3], m[3][2], m[3][3])),
                   QMul(m[1][2], Det2(m[2][1], m[2][3], m[3][1], m[3][3]))),
              QMul(m[1][3], Det2(m[2][1], m[2][2], m[3][1], m[3][2])))

Minor(m, i, j) ==     \* determinant of m with row i and column j removed (n = 2 or 3)
  LET rows == [r \in 1..(NRows(m) - 1) |-> IF r < i THEN r ELSE r + 1]
      cols == [c \in 1..(NCols(m) - 1) |-> IF c < j THEN c ELSE c + 1]
      sub == [r \in 1..(NRows(m) - 1) |-> [c \in 1..(NCols(m) - 1) |-> m[rows[r]][cols[c]]]]
  IN MDet(sub)

MInverse(m) ==
  LET d == MDet(m) n == NRows(m) IN
  IF n = 1 THEN << <<QDiv(R(1), d)>> >>
  ELSE TLCEval([i \in 1..n |-> [j \in 1..n |->
          QDiv(QMul(IF (i + j) % 2 = 0 THEN R(1) ELSE R(-1), Minor(m, j, i)), d)]])

MTrace(m) == LET RECURSIVE T(_) T(k) == IF k = 0 THEN R(0) ELSE QAdd(T(k - 1), m[k][k]) IN T(NRows(m))
MIsSquare(m) == NRows(m) = NCols(m)
MIsSymmetric(m) == MIsSquare(m) /\ m = MTranspose(m)
\* Sylvester: all leading principal minors positive
LeadMinor(m, k) == MDet([i \in 1..k |-> [j \in 1..k |-> m[i][j]]])
MIsPosDef(m) == MIsSymmetric(m) /\ \A k \in 1..NRows(m) : RIsPos(LeadMinor(m, k))
MIsNegDef(m) == MIsPosDef(MScale(m, R(-1)))
MBlockDiag(a, b) ==
  LET na == NRows(a) nb == NRows(b) IN
  TLCEval([i \in 1..(na + nb) |-> [j \in 1..(na + nb) |->
      IF i <= na /\ j <= na THEN a[i][j]
      ELSE IF i > na /\ j > na THEN b[i - na][j - na] ELSE R(0)]])
\* integer matrix -> rational matrix ; dyadic: entries given as <<num, den>> already
MInt(m) == TLCEval([i \in 1..Len(m) |-> [j \in 1..Len(m[1]) |-> R(m[i][j])]])
MDiag(d) == TLCEval([i \in 1..Len(d) |-> [j \in 1..Len(d) |-> IF i = j THEN d[i] ELSE R(0)]])
=============================================================================
