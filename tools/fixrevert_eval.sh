#!/bin/sh
# applies each reverse fix patch to /repo, runs the mapped checks, reverts
cd /verif
mkdir -p build/ev_backup && cp evidence/*.json build/ev_backup/
for pair in 0b7a1b4:C09 39c290c:C13 dadfa7b:C16 eec2641:C15 8af8028:C14 52e8f2f:C13 c907a95:C12 309141d:C04 422afd3:C06 d778a70:C17 9b0852c:C08,C10 da2ff0c:C19 2aff72c:C10 2c1deda:C04 4a589a0:C06 71ca79d:C19 2845b7c:C11 defac3d:C11 5bbfb09:C11 1763b9d:C09 17715b0:C13 0584bef:C20 c5fa073:C20 83a91ef:C20; do
  c=${pair%%:*}; ps=${pair##*:}
  if git -C /repo apply --3way /verif/seeded/fix-reverts/$c.diff >/dev/null 2>&1; then
    git -C /repo reset -q
    for p in $(echo $ps | tr ',' ' '); do
      out=$(bin/check $p quick 2>&1); rc=$?
      echo "$c $p exit=$rc $(echo "$out" | grep -c '^VIOLATION') violations: $(echo "$out" | grep 'signature:' | head -2 | tr '\n' ' ' | cut -c1-200)"
    done
  else
    echo "$c APPLY-FAILED"
  fi
  git -C /repo checkout -- . 
done
find /verif/replays -name '*.json' -delete
cp build/ev_backup/*.json evidence/ && rm -rf build/ev_backup
