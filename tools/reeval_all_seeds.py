#!/usr/bin/env python3
"""Re-evaluate every stored seeded change against the current checks (quick tier):
applies each patch to /repo, runs the checks named in its meta.json (caught_by_checks), reverts.
Writes seeded/RESULTS.json.  /repo must be clean and no other check may be running."""
import json, os, subprocess, sys

root = "/verif/seeded"
res = {}
only = sys.argv[1:]
for d in sorted(os.listdir(root)):
    p = os.path.join(root, d)
    if not os.path.isfile(os.path.join(p, "meta.json")) or (only and not any(d.startswith(o) for o in only)):
        continue
    m = json.load(open(os.path.join(p, "meta.json")))
    pids = ",".join(m.get("caught_by_checks") or [m["property"]])
    r = subprocess.run(["python3", "/verif/tools/seed_eval.py", p, pids], capture_output=True, text=True)
    try:
        out = json.loads(r.stdout)
    except Exception:
        out = {"error": (r.stdout + r.stderr)[-400:]}
    caught = [k for k, v in out.get("checks", {}).items() if v["exit"] == 1 and v["n"] > 0]
    res[d] = {"apply": out.get("apply"), "demo_with_patch": out.get("demo_with_patch"), "demo_without_patch": out.get("demo_without_patch"),
              "expected": pids.split(","), "caught_by": caught,
              "exit_codes": {k: v["exit"] for k, v in out.get("checks", {}).items()}, "error": out.get("error")}
    print(d, res[d]["apply"], res[d]["caught_by"], "MISSED" if not caught else "", flush=True)
    json.dump(res, open(os.path.join(root, "RESULTS.json"), "w"), indent=1)
missed = [d for d, v in res.items() if not v["caught_by"]]
print("seeds:", len(res), "missed:", missed)
