#!/usr/bin/env python3
"""Re-evaluate stored seeded changes (and the reverse patches of the fixes) against the current checks, in parallel:
each patch is applied to its own scratch worktree of /repo under /tmp, the checks are run with PYTHONPATH pointing
at that worktree and private build / output directories, and the worktree is removed.  /repo itself is not touched.
Writes seeded/RESULTS.json.   usage: reeval_parallel.py [jobs] [name-prefix ...]"""
import json, os, re, shutil, subprocess, sys
from concurrent.futures import ThreadPoolExecutor

ROOT, WORK = "/verif/seeded", "/tmp/reeval"
jobs = int(sys.argv[1]) if len(sys.argv) > 1 else 5
only = sys.argv[2:]
FIXMAP = {}
for pair in re.search(r"for pair in (.*?); do", open("/verif/tools/fixrevert_eval.sh").read()).group(1).split():
    c, ps = pair.split(":")
    FIXMAP[c] = ps.split(",")


def sh(cmd, **kw):
    return subprocess.run(cmd, shell=True, capture_output=True, text=True, **kw)


def one(item):
    name, patch, pids, demo = item
    wt, bd, od = f"{WORK}/wt_{name}", f"{WORK}/build_{name}", f"{WORK}/out_{name}"
    for d in (wt, bd, od):
        shutil.rmtree(d, ignore_errors=True)
    sh(f"git -C /repo worktree prune")
    r = sh(f"git -C /repo worktree add --detach {wt} HEAD")
    res = {"expected": pids}
    try:
        r = sh(f"git -C {wt} apply {patch}")
        if r.returncode != 0:
            res["apply"] = "FAILED: " + r.stderr[-200:]
            return name, res
        res["apply"] = "ok"
        env = dict(os.environ, PYTHONPATH=f"/verif/harness:{wt}/src", PYTHONHASHSEED="0", MICI_VERIF="1", PYTHONWARNINGS="ignore",
                   OMP_NUM_THREADS="1", OPENBLAS_NUM_THREADS="1", MKL_NUM_THREADS="1", VERIF_BUILD_DIR=bd, VERIF_OUT_DIR=od)
        os.makedirs(bd, exist_ok=True)
        os.makedirs(od, exist_ok=True)
        if demo:
            d = sh(f"cd {os.path.dirname(demo)} && timeout 300 /venv/bin/python demo.py", env=dict(env, PYTHONPATH=f"{wt}/src"))
            res["demo_with_patch"] = d.returncode
        res["exit_codes"], caught = {}, []
        for pid in pids:
            c = sh(f"cd /verif && timeout 3000 /venv/bin/python -m mbv.cli {pid} quick", env=env)
            n = len(re.findall(r"^VIOLATION", c.stdout, re.M))
            res["exit_codes"][pid] = c.returncode
            if c.returncode == 1 and n > 0:
                caught.append(pid)
            elif c.returncode not in (0, 1):
                res.setdefault("errors", {})[pid] = (c.stdout + c.stderr)[-300:]
        res["caught_by"] = caught
    finally:
        sh(f"git -C /repo worktree remove --force {wt}")
        for d in (bd, od):
            shutil.rmtree(d, ignore_errors=True)
    return name, res


items = []
for d in sorted(os.listdir(ROOT)):
    p = os.path.join(ROOT, d)
    if os.path.isfile(os.path.join(p, "meta.json")):
        m = json.load(open(os.path.join(p, "meta.json")))
        items.append((d, f"{p}/patch.diff", m.get("caught_by_checks") or [m["property"]], f"{p}/demo.py"))
for f in sorted(os.listdir(f"{ROOT}/fix-reverts")):
    if f.endswith(".diff"):
        items.append(("fix-revert-" + f[:-5], f"{ROOT}/fix-reverts/{f}", FIXMAP.get(f[:-5], []), None))
if only:
    items = [i for i in items if any(i[0].startswith(o) for o in only)]
os.makedirs(WORK, exist_ok=True)
out_path = f"{ROOT}/RESULTS.json"
results = json.load(open(out_path)) if os.path.exists(out_path) and only else {}
with ThreadPoolExecutor(max_workers=jobs) as ex:
    for name, res in ex.map(one, items):
        results[name] = res
        print(name, res.get("apply"), res.get("demo_with_patch"), res.get("caught_by"), "" if res.get("caught_by") else "MISSED", res.get("errors", ""), flush=True)
        json.dump(results, open(out_path, "w"), indent=1)
missed = [n for n, v in results.items() if not v.get("caught_by")]
print("evaluated:", len(results), "missed:", missed)
shutil.rmtree(WORK, ignore_errors=True)
