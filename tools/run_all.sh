#!/bin/sh
# usage: tools/run_all.sh [quick|thorough]   (VERIF_SEED is passed through)
# runs every claimed check of MANIFEST.json in turn and prints one summary line per property
tier=${1:-quick}
cd /verif
for p in $(python3 -c "import json; print(' '.join(c['property_id'] for c in json.load(open('/verif/MANIFEST.json'))['checks']))"); do
  t0=$(date +%s)
  out=$(bin/check $p $tier 2>&1); rc=$?
  t1=$(date +%s)
  echo "$p exit=$rc wall=$((t1-t0))s violations=$(echo "$out" | grep -c '^VIOLATION') known=$(echo "$out" | grep -c '^KNOWN-FINDING') drift=$(echo "$out" | grep -c '^SPEC-DRIFT') $(echo "$out" | grep -E '^(MACHINERY|VIOLATION)' | head -2 | tr '\n' ' ' | cut -c1-200)"
done
