#!/usr/bin/env python3
"""Evaluate a seeded change: apply patch to /repo, run its demo and one or more checks, revert.
usage: seed_eval.py <seed_dir> <PID>[,<PID>...] [quick|thorough]"""
import json, subprocess, sys, re, os

d, pids = sys.argv[1], sys.argv[2].split(",")
tier = sys.argv[3] if len(sys.argv) > 3 else "quick"
env = dict(os.environ, PYTHONPATH="/repo/src")
def sh(cmd, **kw):
    return subprocess.run(cmd, shell=True, capture_output=True, text=True, **kw)
assert sh("git -C /repo status --porcelain").stdout.strip() == "", "/repo not clean"
# evidence files must describe the unchanged tree: save them and restore at the end
import shutil, tempfile
_ev_backup = tempfile.mkdtemp(prefix="ev_", dir="/verif/build")
for f in os.listdir("/verif/evidence"):
    shutil.copy(os.path.join("/verif/evidence", f), _ev_backup)
res = {"seed": d, "tier": tier}
r = sh(f"git -C /repo apply --check {d}/patch.diff")
if r.returncode != 0:
    r3 = sh(f"git -C /repo apply --3way {d}/patch.diff")
    res["apply"] = "3way" if r3.returncode == 0 else "FAILED: " + r.stderr[-300:]
    if r3.returncode != 0:
        sh("git -C /repo reset -q --hard HEAD")
        print(json.dumps(res)); sys.exit(0)
    sh("git -C /repo reset -q")
else:
    sh(f"git -C /repo apply {d}/patch.diff")
    res["apply"] = "ok"
try:
    r = sh(f"cd {d} && timeout 300 /venv/bin/python demo.py", env=env)
    res["demo_with_patch"] = r.returncode
    res["checks"] = {}
    for pid in pids:
        r = sh(f"cd /verif && timeout 3000 bin/check {pid} {tier}")
        sigs = re.findall(r"signature: (.*)", r.stdout)
        res["checks"][pid] = {"exit": r.returncode, "signatures": sigs[:6], "n": len(sigs),
                              "drift": len(re.findall(r"^SPEC-DRIFT", r.stdout, re.M)),
                              "tail": (r.stdout + r.stderr)[-400:] if r.returncode not in (0, 1) else ""}
finally:
    sh("git -C /repo checkout -- . && git -C /repo clean -fdq src")
r = sh(f"cd {d} && timeout 300 /venv/bin/python demo.py", env=env)
res["demo_without_patch"] = r.returncode
# leave no stray replay files from the seeded run
for f in os.listdir("/verif/replays"):
    os.remove(os.path.join("/verif/replays", f))
for f in os.listdir(_ev_backup):
    shutil.copy(os.path.join(_ev_backup, f), "/verif/evidence")
shutil.rmtree(_ev_backup, ignore_errors=True)
print(json.dumps(res, indent=1))
