#!/usr/bin/env python3
"""Regenerates MANIFEST.json from the table below (single source of truth)."""
import json, sys
from pathlib import Path

ROOT = Path(__file__).resolve().parent
CHECKS = json.loads((ROOT / "manifest_checks.json").read_text())

man = {
    "version": 1,
    "setup_cmd": "cd /verif && sh bin/setup",
    "hooks": {
        "guard": "MICI_VERIF",
        "enable": "no source hooks are needed: checks import /repo/src directly (PYTHONPATH) and observe through public extension points; bin/check exports MICI_VERIF=1 for future hooks",
        "baseline_off_cmd": "cd /repo && env -u MICI_VERIF /venv/bin/python -m pytest -ra -q -p no:cacheprovider --timeout=900 --continue-on-collection-errors",
        "source_commits": CHECKS.get("hook_commits", []),
        "add_only": True,
    },
    "engines": CHECKS["engines"],
    "checks": [],
    "notes": CHECKS.get("notes", ""),
    "not_applicable": CHECKS["not_applicable"],
}
for c in CHECKS["checks"]:
    pid = c["property_id"]
    man["checks"].append({
        "property_id": pid,
        "quick_cmd": f"bin/check {pid} quick",
        "thorough_cmd": f"bin/check {pid} thorough",
        "evidence_file": f"/verif/evidence/{pid}.json",
        "replay_cmd_template": f"bin/check {pid} --replay {{path}}",
        "engine": c["engine"],
        "level_claimed": {"category": c["category"], "text": c["text"], "design_ref": c["design_ref"]},
        "level_note": c["level_note"],
        "technique": c["technique"],
    })
(ROOT / "MANIFEST.json").write_text(json.dumps(man, indent=1) + "\n")
